#!/usr/bin/env python3
import json,sys
for f in sys.argv[1:]:
    r=json.load(open(f))
    s=r['scenario']
    print('==',f)
    print(' ',r['property'],r['oracle'],r['class'])
    print('  detail:',r['detail'][:400])
    if r['world']=='uw':
        print('  uid',s['uid'],'umask',oct(s['umask']),'dst',s['dst'],'allow',s.get('allow'))
        for a in s['archives']:
            print('   fmt',a['format'],'reader',a['reader'], 'raw',a.get('raw'),'cut',a.get('cut_tar'))
            for e in a['entries']: print('     ',e)
    elif r['world']=='pw':
        print('  uid',s['uid'],'umask',oct(s['umask']),'opts',s['opts'],'history',s.get('history'),'conc',s.get('conc'),'chdirs',s.get('chdirs'),'tape',s.get('tape'))
        print('  rules',repr(s.get('rules')))
        for n in s['tree']: print('    ',n)
        for n in s['runs']: print('   run',n)
    else:
        print(json.dumps(s,indent=1)[:3000])
