#!/usr/bin/env python3
import json,sys
for f in sys.argv[1:]:
    r=json.load(open(f))
    s=r['scenario']
    print('==',f)
    print(' ',r['property'],r['oracle'],r['class'])
    print('  detail:',r['detail'][:400])
    if r['world']=='uw':
        print('  uid',s['uid'],'umask',oct(s['umask']),'dst',s['dst'],'allow',s.get('allow'))
        for a in s['archives']:
            print('   fmt',a['format'],'reader',a['reader'], 'raw',a.get('raw'),'cut',a.get('cut_tar'))
            for e in a['entries']: print('     ',e)
    elif r['world']=='pw':
        print('  uid',s['uid'],'umask',oct(s['umask']),'opts',s['opts'],'history',s.get('history'),'conc',s.get('conc'),'chdirs',s.get('chdirs'),'tape',s.get('tape'))
        print('  rules',repr(s.get('rules')))
        for n in s['tree']: print('    ',n)
        for n in s['runs']: print('   run',n)
    elif r['world']=='bw':
        print('  uid',s['uid'],'faults',s.get('faults'),'post',s.get('post'),'corrupt',s.get('corrupt'))
        if s.get('manifest'): print('  MANIFEST',s['manifest'][:600])
        if s.get('strings'): print('  STRINGS',s['strings'])
        for i,p in enumerate(s.get('pkgs') or []):
            print('  PKG',i,p['base'],p.get('query'),'rules',repr(p.get('rules')),'commit',bool(p.get('commit')))
            for x in p.get('files') or []: print('      ',x)
            for m in p.get('mods') or []: print('     MOD',m)
        for g in s.get('regs') or []: print('  REG',g)
        print('  ADDS',s.get('adds')); 
        for v in s.get('variants') or []: print('  VAR',v)
    else:
        print(json.dumps(s,indent=1)[:3000])
