// simworker runs simulated scenarios against the real go-slug code inside a
// chroot arena. It reads one JSON request per line on stdin and answers each
// with one JSON outcome line on stdout. Built with -tags verif from /repo's
// working tree on every check.
package main

import (
	"bufio"
	"encoding/json"
	"flag"
	"fmt"
	"os"
	"runtime/debug"
	"syscall"

	"verif/sim/simkit"
	"verif/sim/worlds/uw"
	"verif/sim/worlds/uwrun"
)

type request struct {
	World    string          `json:"world"`
	Scenario json.RawMessage `json:"scenario"`
	Events   bool            `json:"events,omitempty"`
	Expect   []string        `json:"expect,omitempty"` // digests of the reference execution (same scenario without its history, fresh process)
}

func main() {
	root := flag.String("root", "", "scratch directory to chroot into")
	uid := flag.Int("uid", 0, "uid to drop to after chroot")
	flag.Parse()
	debug.SetMaxStack(64 << 20)
	var rl syscall.Rlimit
	rl.Cur, rl.Max = 4<<30, 4<<30
	syscall.Setrlimit(syscall.RLIMIT_AS, &rl)
	if *root == "" {
		fmt.Fprintln(os.Stderr, "simworker: -root required")
		os.Exit(2)
	}
	if err := simkit.EnterArena(*root, *uid); err != nil {
		fmt.Fprintln(os.Stderr, "simworker: cannot enter arena:", err)
		os.Exit(2)
	}
	in := bufio.NewReaderSize(os.Stdin, 1<<20)
	w := bufio.NewWriter(os.Stdout)
	enc := json.NewEncoder(w)
	for {
		line, err := in.ReadBytes('\n')
		if len(line) > 1 {
			var req request
			if e := json.Unmarshal(line, &req); e != nil {
				enc.Encode(&simkit.Outcome{Harness: "bad request: " + e.Error()})
				w.Flush()
			} else {
				out := dispatch(&req)
				if !req.Events {
					out.Events = nil
				}
				enc.Encode(out)
				w.Flush()
			}
		}
		if err != nil {
			return
		}
	}
}

func dispatch(req *request) *simkit.Outcome {
	switch req.World {
	case "uw":
		var sc uw.Scenario
		if err := json.Unmarshal(req.Scenario, &sc); err != nil {
			return &simkit.Outcome{Harness: "bad uw scenario: " + err.Error()}
		}
		return uwrun.Run(&sc)
	}
	return runOther(req)
}
