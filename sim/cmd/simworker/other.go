package main

import "verif/sim/simkit"

func runOther(req *request) *simkit.Outcome {
	return &simkit.Outcome{Harness: "unknown world " + req.World}
}
