package main

import (
	"encoding/json"

	"verif/sim/simkit"
	"verif/sim/worlds/bw"
	"verif/sim/worlds/bwrun"
	"verif/sim/worlds/pw"
	"verif/sim/worlds/pwrun"
)

func runOther(req *request) *simkit.Outcome {
	switch req.World {
	case "pw":
		var sc pw.Scenario
		if err := json.Unmarshal(req.Scenario, &sc); err != nil {
			return &simkit.Outcome{Harness: "bad pw scenario: " + err.Error()}
		}
		sc.Expect = req.Expect
		return pwrun.Run(&sc)
	case "bw":
		var sc bw.Scenario
		if err := json.Unmarshal(req.Scenario, &sc); err != nil {
			return &simkit.Outcome{Harness: "bad bw scenario: " + err.Error()}
		}
		return bwrun.Run(&sc)
	}
	return &simkit.Outcome{Harness: "unknown world " + req.World}
}
