package main

import (
	"encoding/json"

	"verif/sim/simkit"
	"verif/sim/worlds/pw"
	"verif/sim/worlds/pwrun"
)

func runOther(req *request) *simkit.Outcome {
	switch req.World {
	case "pw":
		var sc pw.Scenario
		if err := json.Unmarshal(req.Scenario, &sc); err != nil {
			return &simkit.Outcome{Harness: "bad pw scenario: " + err.Error()}
		}
		return pwrun.Run(&sc)
	}
	return &simkit.Outcome{Harness: "unknown world " + req.World}
}
