package main

import (
	"encoding/json"
	"sort"
	"sync"

	"verif/sim/simkit"
)

// Found is one violation together with the scenario that produced it.
type Found struct {
	V        simkit.Violation
	World    string
	Profile  string
	Seed     uint64
	Scenario json.RawMessage
	Size     int
	Trace    string
}

type crashCand struct {
	World    string
	Profile  string
	Seed     uint64
	Scenario json.RawMessage
	Kind     string // died | timeout
	Stderr   string
}

// Agg accumulates what a check run covered.
type Agg struct {
	mu          sync.Mutex
	Evals       int
	Skipped     int
	Steps       int64
	Decisions   int64
	distinct    map[string]bool
	nontrivial  map[string]bool
	states      map[string]bool
	inters      map[string]bool
	Faults      map[string]int
	Probes      map[string]int
	PerLeg      map[string]int
	Samples     []json.RawMessage
	sampleLegs  map[string]int
	Found       []Found
	OtherProps  map[string]int
	Crashes     []crashCand
	HarnessErrs []string
	UIDs        map[int]int
}

func newAgg() *Agg {
	return &Agg{distinct: map[string]bool{}, nontrivial: map[string]bool{}, states: map[string]bool{}, inters: map[string]bool{},
		Faults: map[string]int{}, Probes: map[string]int{}, PerLeg: map[string]int{}, sampleLegs: map[string]int{},
		OtherProps: map[string]int{}, UIDs: map[int]int{}}
}

func (a *Agg) Add(leg string, prop string, o *simkit.Outcome, scen json.RawMessage, uid int) {
	a.mu.Lock()
	defer a.mu.Unlock()
	if o.Harness != "" {
		if len(a.HarnessErrs) < 20 {
			a.HarnessErrs = append(a.HarnessErrs, o.Harness)
		}
		return
	}
	if o.Skipped != "" {
		a.Skipped++
		return
	}
	a.Evals++
	a.PerLeg[leg]++
	a.UIDs[uid]++
	a.Steps += int64(o.Steps)
	a.Decisions += int64(o.Decisions)
	a.distinct[o.ScenHash] = true
	if o.Nontrivial {
		a.nontrivial[o.ScenHash] = true
	}
	for _, s := range o.States {
		if len(a.states) < 2000000 {
			a.states[s] = true
		}
	}
	if o.Inter != "" && len(a.inters) < 2000000 {
		a.inters[o.Inter] = true
	}
	for k, v := range o.Faults {
		a.Faults[k] += v
	}
	for k, v := range o.Probes {
		a.Probes[k] += v
	}
	if a.sampleLegs[leg] < 2 && o.Nontrivial {
		a.sampleLegs[leg]++
		a.Samples = append(a.Samples, scen)
	}
	for _, v := range o.Violations {
		if v.Prop != prop {
			a.OtherProps[v.Prop]++
			continue
		}
		if len(a.Found) < 5000 {
			a.Found = append(a.Found, Found{V: v, World: o.World, Profile: o.Profile, Seed: o.Seed, Scenario: scen, Size: len(scen), Trace: o.TraceHash})
		}
	}
}

func (a *Agg) AddCrash(c crashCand) {
	a.mu.Lock()
	defer a.mu.Unlock()
	if len(a.Crashes) < 50 {
		a.Crashes = append(a.Crashes, c)
	}
}

type vkey struct{ Prop, Oracle, Class string }

// Groups returns the found violations grouped by (prop, oracle, class), each
// group sorted smallest scenario first; group keys sorted.
func (a *Agg) Groups() ([]vkey, map[vkey][]Found) {
	g := map[vkey][]Found{}
	for _, f := range a.Found {
		k := vkey{f.V.Prop, f.V.Oracle, f.V.Class}
		g[k] = append(g[k], f)
	}
	var keys []vkey
	for k := range g {
		keys = append(keys, k)
		fs := g[k]
		sort.SliceStable(fs, func(i, j int) bool {
			if fs[i].Size != fs[j].Size {
				return fs[i].Size < fs[j].Size
			}
			return fs[i].Seed < fs[j].Seed
		})
	}
	sort.Slice(keys, func(i, j int) bool {
		if keys[i].Oracle != keys[j].Oracle {
			return keys[i].Oracle < keys[j].Oracle
		}
		return keys[i].Class < keys[j].Class
	})
	return keys, g
}
