// verifctl is the orchestrator of the deterministic-simulation checks. It does
// not import go-slug: it generates scenarios, (re)builds the worker from
// /repo's working tree, farms scenarios out to worker processes, aggregates
// outcomes, matches known findings, minimises and replays violations, and
// writes evidence.
//
// Exit codes: 0 property held on everything explored (possibly with
// KNOWN-FINDING lines); 1 with "VIOLATION property=<id> replay=<path>";
// 2 infrastructure trouble (never accompanied by a VIOLATION line).
package main

import (
	"encoding/json"
	"fmt"
	"os"
	"os/exec"
	"path/filepath"
	"runtime"
	"sort"
	"strconv"
	"strings"
	"sync"
	"sync/atomic"
	"time"

	"verif/sim/simkit"
)

var verifDir = func() string {
	if v := os.Getenv("VERIF_DIR"); v != "" {
		return v
	}
	return "/verif"
}()

func repoDir() string {
	if v := os.Getenv("VERIF_REPO"); v != "" {
		return v
	}
	return "/repo"
}

// outDir is where evidence and replay files go: /verif, unless VERIF_OUT
// redirects them (used when the checks are pointed at a scratch copy of the
// repository, e.g. for sensitivity runs, so that committed evidence is not overwritten).
func outDir() string {
	if v := os.Getenv("VERIF_OUT"); v != "" {
		return v
	}
	return verifDir
}

func fatal2(format string, a ...interface{}) {
	fmt.Fprintf(os.Stderr, "verifctl: "+format+"\n", a...)
	os.Exit(2)
}

func envInt(name string, def int) int {
	if v := os.Getenv(name); v != "" {
		if n, err := strconv.Atoi(v); err == nil {
			return n
		}
	}
	return def
}

// buildWorker compiles simworker against the repository working tree into a
// private directory. race/cover select instrumented variants.
func buildWorker(race, cover bool) (string, func()) {
	binDir := filepath.Join(verifDir, ".bin", fmt.Sprintf("%d", os.Getpid()))
	if err := os.MkdirAll(binDir, 0o755); err != nil {
		fatal2("mkdir %s: %v", binDir, err)
	}
	cleanup := func() { os.RemoveAll(binDir) }
	simDir := filepath.Join(verifDir, "sim")
	modfile := filepath.Join(binDir, "go.mod")
	src, err := os.ReadFile(filepath.Join(simDir, "go.mod"))
	if err != nil {
		fatal2("read go.mod: %v", err)
	}
	mod := strings.Replace(string(src), "=> /repo", "=> "+repoDir(), 1)
	os.WriteFile(modfile, []byte(mod), 0o644)
	sum, _ := os.ReadFile(filepath.Join(simDir, "go.sum"))
	os.WriteFile(filepath.Join(binDir, "go.sum"), sum, 0o644)
	name := "simworker"
	args := []string{"build", "-modfile=" + modfile, "-tags", "verif", "-o", filepath.Join(binDir, name)}
	if race {
		args = append(args, "-race")
	}
	if cover {
		args = append(args, "-cover", "-coverpkg=github.com/hashicorp/go-slug/...")
	}
	args = append(args, "./cmd/simworker")
	cmd := exec.Command("go", args...)
	cmd.Dir = simDir
	cmd.Env = append(os.Environ(), "GOFLAGS=-mod=mod", "GOPROXY=off", "GOSUMDB=off", "GOTOOLCHAIN=local", "CGO_ENABLED=0")
	if race {
		cmd.Env = append(cmd.Env, "CGO_ENABLED=1")
	}
	outb, err := cmd.CombinedOutput()
	if err != nil {
		cleanup()
		fatal2("building simworker from %s failed (infrastructure, not a verdict):\n%s", repoDir(), outb)
	}
	return filepath.Join(binDir, name), cleanup
}

// ---------------------------------------------------------------------------

type scen struct {
	JSON json.RawMessage
	UID  int
}

// Driver is what the orchestrator knows about a world.
type Driver struct {
	Expand  func(seed uint64, profile string) []scen
	Shrink  func(json.RawMessage) []json.RawMessage
	OneShot bool // one OS process per scenario
	Timeout time.Duration
	// Ref derives the reference scenario of a scenario (same operations, no history). It is
	// executed first, in a process of its own, and its output digests are handed to the
	// scenario proper: state that a history leaves behind anywhere in the process shows as a
	// difference even when every later operation in that process sees the same state.
	Ref func(json.RawMessage) (json.RawMessage, bool)
}

// refDigests runs the reference scenario, if the world defines one for sc.
func (o *Orch) refDigests(world string, sc json.RawMessage, uid int, timeout time.Duration) []string {
	drv := drivers[world]
	if drv.Ref == nil {
		return nil
	}
	ref, ok := drv.Ref(sc)
	if !ok {
		return nil
	}
	w, err := startWorker(o.bin, uid, nil)
	if err != nil {
		return nil
	}
	defer w.Close()
	out, died, timedOut, _ := w.Do(world, ref, false, timeout)
	if died || timedOut || out == nil || out.Harness != "" {
		return nil
	}
	return out.Digests
}

var drivers = map[string]*Driver{}

// Leg is one (world, profile) workload of a check.
type Leg struct {
	World   string
	Profile string
	Quick   int     // base seeds in the quick tier
	Weight  float64 // share of the thorough time budget
	Index   bool    // seeds are 0..N-1 regardless of VERIF_SEED (index-decoded families)
}

type Plan struct {
	ID     string
	Level  string
	Legs   []Leg
	Rule   string
	Assume []string
	Real   []string
	Sim    []string
	Expect []string // probes (rare conditions) this check is expected to hit; one stuck at zero is reported
}

var plans = map[string]*Plan{}

// expectedProbes: the rare conditions each check's workload is meant to reach.
var expectedProbes = map[string][]string{
	"C01": {"links-left-under-dst", "multi-entry-success", "rejected:name-escape", "rejected:through-link", "shared-packer-second-destination"},
	"C04": {"first-bad-is-link:link-abs", "first-bad-is-link:link-lex-escape", "links-left-under-dst", "rejected:link-abs", "rejected:link-lex-escape"},
	"C15": {"multi-entry-success", "unsupported-type-entry", "rejected:unsupported-type"},
	"C02": {"roundtrip-compared", "pipelined-roundtrip", "pipe-filled-to-capacity", "concurrent-packs-interleaved"},
	"C03": {"path-excluded-by-rules", "deref-dir-path-judged", "bundle-path-removed-by-rules", "concurrent-packs-interleaved"},
	"C05": {"dereferenced-content-copied", "link-entry-stored", "out-of-tree-link-without-deref", "deref-copy-verified", "roundtrip-unpacked"},
	"C16": {"same-output-confirmed", "concurrent-packs-interleaved", "model-list-compared"},
	"C20": {"meta-with-regular-files", "concurrent-packs-interleaved"},
	"C08": {"build-succeeded", "dependencies-discovered", "registry-lookup-checked", "packages-coalesced", "bundle-link-validated"},
	"C14": {"build-succeeded", "dependencies-discovered"},
	"C17": {"version-selection-checked", "deprecation-recorded", "build-failed"},
	"C13": {"variants-compared", "packages-coalesced"},
	"C09": {"reopened", "shipped"},
	"C10": {"bundle-link-validated", "hostile-link-to-existing-sibling-package", "build-failed"},
	"C18": {"hostile-manifest-opened", "corrupt-manifest-refused", "reverse-lookups-checked", "hostile-manifest-refused"},
	"C12": {"crash-probe", "finder-diagnostic-delivered", "unpack-ok-despite-fault", "build-failed"},
	"C19": {"parser:source", "hostile-manifest-refused"},
}

// ---------------------------------------------------------------------------

type Orch struct {
	bin     string
	par     int
	workers sync.Map
}

// runLeg executes seeds of one leg until count or deadline is reached.
func (o *Orch) runLeg(prop string, leg Leg, baseSeed uint64, count int, deadline time.Time, agg *Agg) {
	drv := drivers[leg.World]
	if drv == nil {
		fatal2("no driver for world %q", leg.World)
	}
	legName := leg.World + "/" + leg.Profile
	var next int64 = -1
	var wg sync.WaitGroup
	for g := 0; g < o.par; g++ {
		wg.Add(1)
		go func() {
			defer wg.Done()
			persist := map[int]*Worker{}
			defer func() {
				for _, w := range persist {
					w.Close()
				}
			}()
			for {
				i := atomic.AddInt64(&next, 1)
				if count > 0 && int(i) >= count {
					return
				}
				if !deadline.IsZero() && time.Now().After(deadline) {
					return
				}
				seed := baseSeed + uint64(i)
				if leg.Index {
					seed = uint64(i)
				}
				for _, sc := range drv.Expand(seed, leg.Profile) {
					var w *Worker
					var err error
					if drv.OneShot {
						w, err = startWorker(o.bin, sc.UID, nil)
					} else {
						w = persist[sc.UID]
						if w == nil || w.dead {
							w, err = startWorker(o.bin, sc.UID, nil)
							persist[sc.UID] = w
						}
					}
					if err != nil {
						agg.Add(legName, prop, &simkit.Outcome{Harness: "start worker: " + err.Error()}, sc.JSON, sc.UID)
						return
					}
					out, died, timedOut, stderr := w.Do(leg.World, sc.JSON, false, drv.Timeout, o.refDigests(leg.World, sc.JSON, sc.UID, drv.Timeout)...)
					if drv.OneShot {
						w.Close()
					}
					if died || timedOut {
						kind := "died"
						if timedOut {
							kind = "timeout"
						}
						agg.AddCrash(crashCand{World: leg.World, Profile: leg.Profile, Seed: seed, Scenario: sc.JSON, Kind: kind, Stderr: stderr})
						continue
					}
					agg.Add(legName, prop, out, sc.JSON, sc.UID)
				}
			}
		}()
	}
	wg.Wait()
}

// runOne executes a single scenario in a fresh worker process.
func (o *Orch) runOne(world string, sc json.RawMessage, uid int, events bool) (out *simkit.Outcome, died, timedOut bool, stderr string) {
	drv := drivers[world]
	w, err := startWorker(o.bin, uid, nil)
	if err != nil {
		return &simkit.Outcome{Harness: "start worker: " + err.Error()}, false, false, ""
	}
	defer w.Close()
	// solo runs (confirmation, shrinking, replay) get twice the budget of batch runs, so that a
	// machine that was merely busy during the batch does not turn into a hang verdict
	return w.Do(world, sc, events, 2*drv.Timeout, o.refDigests(world, sc, uid, 2*drv.Timeout)...)
}

func scenUID(sc json.RawMessage) int {
	var x struct {
		UID int `json:"uid"`
	}
	json.Unmarshal(sc, &x)
	return x.UID
}

func hasViolation(out *simkit.Outcome, k vkey) bool {
	if out == nil {
		return false
	}
	for _, v := range out.Violations {
		if v.Prop == k.Prop && v.Oracle == k.Oracle && v.Class == k.Class {
			return true
		}
	}
	return false
}

// stillFails runs a candidate and reports whether the same violation occurs.
// Crash-type violations (oracle process-died / op-timeout) are judged by the
// process outcome.
func (o *Orch) stillFails(world string, sc json.RawMessage, k vkey) bool {
	out, died, timedOut, stderr := o.runOne(world, sc, scenUID(sc), false)
	switch k.Oracle {
	case "process-died":
		return died && crashClass(stderr) == k.Class
	case "op-timeout":
		return timedOut
	}
	return hasViolation(out, k)
}

// minimise shrinks a failing scenario while the same violation persists.
func (o *Orch) minimise(world string, sc json.RawMessage, k vkey, budget time.Duration) (json.RawMessage, int) {
	drv := drivers[world]
	if drv.Shrink == nil {
		return sc, 0
	}
	deadline := time.Now().Add(budget)
	runs := 0
	cur := sc
	for {
		progress := false
		cands := drv.Shrink(cur)
		// evaluate candidates in parallel batches, keep the first (most aggressive) that still fails
		for start := 0; start < len(cands) && !progress; start += o.par {
			end := start + o.par
			if end > len(cands) {
				end = len(cands)
			}
			res := make([]bool, end-start)
			var wg sync.WaitGroup
			for i := start; i < end; i++ {
				wg.Add(1)
				go func(i int) {
					defer wg.Done()
					res[i-start] = o.stillFails(world, cands[i], k)
				}(i)
			}
			wg.Wait()
			runs += end - start
			for i, ok := range res {
				if ok {
					cur = cands[start+i]
					progress = true
					break
				}
			}
			if time.Now().After(deadline) {
				return cur, runs
			}
		}
		if !progress {
			return cur, runs
		}
	}
}

// pinTapes makes the schedule explicit: the failing scenario is run once more,
// the decisions of every scheduler are read back and written into the scenario
// (have_tape/tapes), so that the replay file carries the schedule as data and
// the shrinker can shorten it. If the pinned scenario does not fail the same
// way (it should), the unpinned one is kept.
func (o *Orch) pinTapes(world string, sc json.RawMessage, k vkey) json.RawMessage {
	if world == "uw" {
		return sc
	}
	out, died, timedOut, _ := o.runOne(world, sc, scenUID(sc), false)
	if died || timedOut || out == nil || len(out.Tapes) == 0 {
		return sc
	}
	var m map[string]json.RawMessage
	if json.Unmarshal(sc, &m) != nil {
		return sc
	}
	tb, _ := json.Marshal(out.Tapes)
	m["tapes"] = tb
	m["have_tape"] = json.RawMessage("true")
	pinned, err := json.Marshal(m)
	if err != nil {
		return sc
	}
	if o.stillFails(world, pinned, k) {
		return pinned
	}
	return sc
}

func crashClass(stderr string) string {
	switch {
	case strings.Contains(stderr, "stack overflow") || strings.Contains(stderr, "goroutine stack exceeds"):
		return "stack-overflow"
	case strings.Contains(stderr, "out of memory") || strings.Contains(stderr, "cannot allocate"):
		return "out-of-memory"
	case strings.Contains(stderr, "fatal error"):
		return "fatal-error"
	case strings.Contains(stderr, "panic:"):
		return "panic"
	}
	return "unknown"
}

// ---------------------------------------------------------------------------

type ReplayFile struct {
	Property   string          `json:"property"`
	Oracle     string          `json:"oracle"`
	Class      string          `json:"class"`
	Detail     string          `json:"detail"`
	World      string          `json:"world"`
	Seed       uint64          `json:"seed"`
	Profile    string          `json:"profile"`
	TraceHash  string          `json:"trace_hash"`
	ShrinkRuns int             `json:"shrink_runs"`
	Scenario   json.RawMessage `json:"scenario"`
	Events     []string        `json:"events,omitempty"`
	Note       string          `json:"note"`
}

type KnownFinding struct {
	ID          string `json:"id"`
	Property    string `json:"property"`
	Status      string `json:"status"` // open | fixed
	Oracle      string `json:"oracle"`
	Class       string `json:"class"`
	Commit      string `json:"commit,omitempty"`
	Description string `json:"description"`
}

func loadKnown() []KnownFinding {
	var kf struct {
		Findings []KnownFinding `json:"findings"`
	}
	b, err := os.ReadFile(filepath.Join(verifDir, "known_findings.json"))
	if err != nil {
		return nil
	}
	if err := json.Unmarshal(b, &kf); err != nil {
		fatal2("known_findings.json: %v", err)
	}
	return kf.Findings
}

func matchKnown(kfs []KnownFinding, k vkey) *KnownFinding {
	for i := range kfs {
		f := &kfs[i]
		if f.Status == "open" && f.Property == k.Prop && f.Oracle == k.Oracle && f.Class == k.Class {
			return f
		}
	}
	return nil
}

// ---------------------------------------------------------------------------

func main() {
	if len(os.Args) < 2 {
		fatal2("usage: verifctl check <id> quick|thorough | replay <file> | selftest determinism | gen <world> <profile> <seed>")
	}
	registerAll()
	switch os.Args[1] {
	case "check":
		if len(os.Args) < 4 {
			fatal2("usage: verifctl check <id> quick|thorough")
		}
		os.Exit(cmdCheck(os.Args[2], os.Args[3]))
	case "replay":
		os.Exit(cmdReplay(os.Args[2]))
	case "selftest":
		os.Exit(cmdSelftest(os.Args[2:]))
	case "gen":
		seed, _ := strconv.ParseUint(os.Args[4], 10, 64)
		for _, s := range drivers[os.Args[2]].Expand(seed, os.Args[3]) {
			fmt.Println(string(s.JSON))
		}
	case "run":
		// run <world> <scenario.json>: execute one scenario and print the outcome with events
		os.Exit(cmdRun(os.Args[2], os.Args[3]))
	case "build":
		_, cleanup := buildWorker(false, false)
		cleanup()
	default:
		fatal2("unknown command %q", os.Args[1])
	}
}

func cmdRun(world, file string) int {
	b, err := os.ReadFile(file)
	if err != nil {
		fatal2("%v", err)
	}
	bin, cleanup := buildWorker(false, false)
	defer cleanup()
	o := &Orch{bin: bin, par: 1}
	out, died, timedOut, stderr := o.runOne(world, b, scenUID(b), true)
	if died || timedOut {
		fmt.Printf("died=%v timeout=%v stderr:\n%s\n", died, timedOut, stderr)
		return 1
	}
	enc := json.NewEncoder(os.Stdout)
	enc.SetIndent("", " ")
	enc.Encode(out)
	return 0
}

func cmdCheck(id, tier string) int {
	plan := plans[id]
	if plan == nil {
		fatal2("no check for property %q", id)
	}
	if tier != "quick" && tier != "thorough" {
		fatal2("tier must be quick or thorough")
	}
	start := time.Now()
	verifSeed := uint64(envInt("VERIF_SEED", 1))
	baseSeed := verifSeed * 1000003
	bin, cleanup := buildWorker(false, false)
	defer cleanup()
	o := &Orch{bin: bin, par: envInt("VERIF_PAR", runtime.NumCPU())}
	agg := newAgg()
	budget := time.Duration(envInt("VERIF_BUDGET_S", 900)) * time.Second
	quickCap := time.Duration(envInt("VERIF_QUICK_CAP_S", 100)) * time.Second
	var totalW float64
	for _, l := range plan.Legs {
		totalW += l.Weight
	}
	remW := totalW
	for _, leg := range plan.Legs {
		if tier == "quick" {
			scale := float64(envInt("VERIF_QUICK_SCALE_PCT", 100)) / 100
			n := int(float64(leg.Quick) * scale)
			if n < 1 {
				n = 1
			}
			// the quick tier is bounded by counts; the wall-clock cap only matters on a busy
			// machine, and there every leg keeps its weight's share of what is left of the
			// cap, so that the later legs are thinned rather than skipped
			left := quickCap - time.Since(start)
			if left < 5*time.Second {
				left = 5 * time.Second
			}
			legCap := time.Duration(float64(left) * leg.Weight / remW)
			remW -= leg.Weight
			if remW < 0.0001 {
				remW = 0.0001
			}
			o.runLeg(id, leg, baseSeed, n, time.Now().Add(legCap), agg)
		} else {
			share := time.Duration(float64(budget) * leg.Weight / totalW)
			count := 0
			if leg.Index {
				count = leg.Quick * 50
			}
			o.runLeg(id, leg, baseSeed, count, time.Now().Add(share), agg)
		}
	}
	return finish(o, plan, tier, verifSeed, agg, start)
}

func finish(o *Orch, plan *Plan, tier string, verifSeed uint64, agg *Agg, start time.Time) int {
	id := plan.ID
	if len(agg.HarnessErrs) > 0 {
		fmt.Fprintf(os.Stderr, "verifctl: harness errors (infrastructure): %v\n", agg.HarnessErrs)
		return 2
	}
	kfs := loadKnown()
	exit := 0
	var reported []map[string]interface{}
	knownSeen := map[string]int{}

	// crash candidates: confirm by a solo re-run before they count. Only the smallest few are
	// re-run (in parallel): each hanging candidate costs its whole real-time budget.
	sort.SliceStable(agg.Crashes, func(i, j int) bool { return len(agg.Crashes[i].Scenario) < len(agg.Crashes[j].Scenario) })
	cands := agg.Crashes
	if len(cands) > 6 {
		cands = cands[:6]
	}
	type crashRes struct {
		died, timedOut bool
		stderr         string
		out            *simkit.Outcome
	}
	cres := make([]crashRes, len(cands))
	var cwg sync.WaitGroup
	for i := range cands {
		cwg.Add(1)
		go func(i int) {
			defer cwg.Done()
			ro, d, t, se := o.runOne(cands[i].World, cands[i].Scenario, scenUID(cands[i].Scenario), false)
			cres[i] = crashRes{d, t, se, ro}
		}(i)
	}
	cwg.Wait()
	unconfirmed := 0
	for i, c := range cands {
		died, timedOut, stderr := cres[i].died, cres[i].timedOut, cres[i].stderr
		if !died && !timedOut {
			// the batch run was disturbed (busy machine); the solo run completed the scenario, and
			// its outcome is what counts
			fmt.Fprintf(os.Stderr, "verifctl: note: worker %s on %s/%s seed %d did not repeat in a solo run; the solo outcome is used\n", c.Kind, c.World, c.Profile, c.Seed)
			unconfirmed++
			if cres[i].out != nil {
				agg.Add(c.World+"/"+c.Profile, id, cres[i].out, c.Scenario, scenUID(c.Scenario))
			}
			continue
		}
		// an operation that never returns (or takes the process down) is C19's subject; it also
		// contradicts the properties that say what must come back instead: a refusal (C10), an
		// error (C12), termination (C14)
		prop := "C19"
		if id == "C10" || id == "C12" || id == "C14" {
			prop = id
		}
		k := vkey{prop, "process-died", crashClass(stderr)}
		detail := "worker process died inside the operation: " + lastLines(stderr, 6)
		if timedOut {
			k = vkey{prop, "op-timeout", "hang"}
			detail = "operation did not return within its real-time budget"
		}
		if id != prop {
			agg.OtherProps["C19"]++
			continue
		}
		agg.Found = append(agg.Found, Found{V: simkit.Violation{Prop: k.Prop, Oracle: k.Oracle, Class: k.Class, Detail: detail}, World: c.World, Profile: c.Profile, Seed: c.Seed, Scenario: c.Scenario, Size: len(c.Scenario)})
	}
	_ = unconfirmed
	if exit == 2 {
		return 2
	}

	keys, groups := agg.Groups()
	shrinkBudget := 25 * time.Second
	if tier == "thorough" {
		shrinkBudget = 90 * time.Second
	}
	nReported := 0
	for _, k := range keys {
		fs := groups[k]
		if kf := matchKnown(kfs, k); kf != nil {
			knownSeen[kf.ID] += len(fs)
			continue
		}
		nReported++
		if nReported > 6 {
			continue // enough distinct reports for one run; the rest are counted
		}
		f := fs[0]
		start := o.pinTapes(f.World, f.Scenario, k)
		min, runs := o.minimise(f.World, start, k, shrinkBudget)
		// confirm: fresh replays must show the violation again, with identical trace hashes.
		// One exception, announced in DESIGN.md section 1: Go's map iteration order cannot
		// be seeded, so a violation that stems from it reproduces only with high
		// probability; such a replay is retried and reported with the observed rate.
		out1, d1, t1, se1 := o.runOne(f.World, min, scenUID(min), true)
		out2, d2, t2, _ := o.runOne(f.World, min, scenUID(min), false)
		confirmed := false
		trace := ""
		detail := f.V.Detail
		var events []string
		note := ""
		switch k.Oracle {
		case "process-died":
			confirmed = d1 && d2
			detail = "worker process died inside the operation: " + lastLines(se1, 6)
		case "op-timeout":
			confirmed = t1 && t2
		default:
			confirmed = hasViolation(out1, k) && hasViolation(out2, k) && out1.TraceHash == out2.TraceHash
			if !confirmed {
				// retry: count reproductions over further fresh processes
				hits, tries := 0, 8
				var hit *simkit.Outcome
				for _, o12 := range []*simkit.Outcome{out1, out2} {
					if hasViolation(o12, k) {
						hits++
						hit = o12
					}
				}
				for i := 0; i < tries-2; i++ {
					ox, _, _, _ := o.runOne(f.World, min, scenUID(min), true)
					if hasViolation(ox, k) {
						hits++
						hit = ox
					}
				}
				if hits >= 1 && hit != nil {
					confirmed = true
					out1 = hit
					note = fmt.Sprintf("reproduced in %d of %d fresh replays: the outcome of this scenario is not a function of the scenario alone (Go map iteration order in the code under test is the one source the simulator cannot seed); ", hits, tries)
				}
			}
			if out1 != nil && confirmed {
				trace = out1.TraceHash
				events = out1.Events
				for _, v := range out1.Violations {
					if v.Prop == k.Prop && v.Oracle == k.Oracle && v.Class == k.Class {
						detail = v.Detail
						break
					}
				}
			}
		}
		if !confirmed {
			fmt.Fprintf(os.Stderr, "verifctl: violation %v from seed %d did not replay at all in 8 fresh processes (harness nondeterminism) — infrastructure error\n", k, f.Seed)
			return 2
		}
		detail = note + detail
		rf := ReplayFile{Property: k.Prop, Oracle: k.Oracle, Class: k.Class, Detail: detail, World: f.World, Seed: f.Seed, Profile: f.Profile,
			TraceHash: trace, ShrinkRuns: runs, Scenario: min, Events: events,
			Note: "replay with: ./check --replay <this file>; the scenario is explicit data (ops, faults, schedule tape), independent of the PRNG"}
		dir := filepath.Join(outDir(), "replays", id)
		os.MkdirAll(dir, 0o755)
		name := fmt.Sprintf("%s-%s-%s-seed%d.json", id, sanitize(k.Oracle), sanitize(k.Class), f.Seed)
		path := filepath.Join(dir, name)
		b, _ := json.MarshalIndent(&rf, "", " ")
		os.WriteFile(path, b, 0o644)
		fmt.Printf("VIOLATION property=%s replay=%s\n", id, path)
		fmt.Printf("  oracle=%s class=%s world=%s/%s seed=%d occurrences=%d shrink_runs=%d\n  %s\n", k.Oracle, k.Class, f.World, f.Profile, f.Seed, len(fs), runs, detail)
		reported = append(reported, map[string]interface{}{"oracle": k.Oracle, "class": k.Class, "replay": path, "occurrences": len(fs), "detail": detail})
		exit = 1
	}
	var kids []string
	for kid := range knownSeen {
		kids = append(kids, kid)
	}
	sort.Strings(kids)
	for _, kid := range kids {
		for _, kf := range kfs {
			if kf.ID == kid {
				fmt.Printf("KNOWN-FINDING: property=%s %s [%s] oracle=%s class=%s seen=%d\n", kf.Property, kf.Description, kf.ID, kf.Oracle, kf.Class, knownSeen[kid])
			}
		}
	}
	writeEvidence(plan, tier, verifSeed, agg, start, nReported, knownSeen, reported)
	if exit == 0 {
		fmt.Printf("OK property=%s tier=%s runs=%d distinct_nontrivial=%d wall=%.1fs\n", id, tier, agg.Evals, len(agg.nontrivial), time.Since(start).Seconds())
	}
	return exit
}

func lastLines(s string, n int) string {
	ls := strings.Split(strings.TrimSpace(s), "\n")
	// the interesting part of a Go crash is at the top
	if len(ls) > n {
		ls = ls[:n]
	}
	return strings.Join(ls, " | ")
}

func sanitize(s string) string {
	var b strings.Builder
	for _, c := range s {
		if c >= 'a' && c <= 'z' || c >= 'A' && c <= 'Z' || c >= '0' && c <= '9' || c == '-' {
			b.WriteRune(c)
		} else {
			b.WriteByte('_')
		}
	}
	if b.Len() == 0 {
		return "x"
	}
	return b.String()
}

func writeEvidence(plan *Plan, tier string, verifSeed uint64, agg *Agg, start time.Time, nViol int, knownSeen map[string]int, reported []map[string]interface{}) {
	wall := time.Since(start).Seconds()
	samples := []interface{}{}
	for _, s := range agg.Samples {
		var v interface{}
		json.Unmarshal(s, &v)
		samples = append(samples, v)
		if len(samples) >= 4 {
			break
		}
	}
	uidMix := map[string]int{}
	for k, v := range agg.UIDs {
		uidMix[fmt.Sprint(k)] = v
	}
	stuck := []string{}
	for _, p := range expectedProbes[plan.ID] {
		if agg.Probes[p] == 0 {
			stuck = append(stuck, p)
		}
	}
	if len(stuck) > 0 {
		fmt.Fprintf(os.Stderr, "verifctl: note: probes stuck at zero for %s: %v (workload did not reach these conditions in this run)\n", plan.ID, stuck)
	}
	cov := map[string]interface{}{
		"evaluations":                         agg.Evals,
		"distinct_nontrivial":                 len(agg.nontrivial),
		"distinct_scenarios":                  len(agg.distinct),
		"rule":                                plan.Rule,
		"samples":                             samples,
		"runs_per_hour":                       int(float64(agg.Evals) / wall * 3600),
		"simulated_steps":                     agg.Steps,
		"steps_per_run":                       float64(agg.Steps) / float64(max1(agg.Evals)),
		"simulated_time_note":                 "go-slug reads no clock and sets no timer; simulated time is the global event sequence number (device calls, peer calls, scheduler decisions)",
		"schedule_decisions":                  agg.Decisions,
		"distinct_interleavings":              len(agg.inters),
		"distinct_abstract_states":            len(agg.states),
		"state_measure":                       "hash of the reference model's state after each operation (UW/PW: model tree shape; BW: packages fetched, (source,finder) pairs analysed, registry answers cached)",
		"faults_fired":                        agg.Faults,
		"probes":                              agg.Probes,
		"probes_stuck_at_zero":                stuck,
		"runs_per_leg":                        agg.PerLeg,
		"generator_skips":                     agg.Skipped,
		"uid_mix":                             uidMix,
		"arena_mode":                          "chroot on " + scratchBase,
		"components_real":                     plan.Real,
		"components_simulated":                plan.Sim,
		"known_findings_seen":                 knownSeen,
		"violations_of_other_properties_seen": agg.OtherProps,
		"reported":                            reported,
		"exhaustive":                          false,
	}
	ev := map[string]interface{}{
		"property_id": plan.ID,
		"tier":        tier,
		"seed":        verifSeed,
		"level":       plan.Level,
		"coverage":    cov,
		"assumptions": plan.Assume,
		"wall_s":      wall,
		"violations":  nViol,
	}
	os.MkdirAll(filepath.Join(outDir(), "evidence"), 0o755)
	b, _ := json.MarshalIndent(ev, "", " ")
	os.WriteFile(filepath.Join(outDir(), "evidence", plan.ID+".json"), b, 0o644)
}

func max1(n int) int {
	if n < 1 {
		return 1
	}
	return n
}

func cmdReplay(file string) int {
	b, err := os.ReadFile(file)
	if err != nil {
		fatal2("%v", err)
	}
	var rf ReplayFile
	if err := json.Unmarshal(b, &rf); err != nil {
		fatal2("bad replay file: %v", err)
	}
	bin, cleanup := buildWorker(false, false)
	defer cleanup()
	o := &Orch{bin: bin, par: 1}
	k := vkey{rf.Property, rf.Oracle, rf.Class}
	out, died, timedOut, stderr := o.runOne(rf.World, rf.Scenario, scenUID(rf.Scenario), true)
	repro := false
	switch rf.Oracle {
	case "process-died":
		repro = died && crashClass(stderr) == rf.Class
	case "op-timeout":
		repro = timedOut
	default:
		repro = hasViolation(out, k)
	}
	if repro {
		same := "n/a"
		if out != nil {
			same = fmt.Sprint(out.TraceHash == rf.TraceHash)
			for _, v := range out.Violations {
				if v.Prop == k.Prop && v.Oracle == k.Oracle && v.Class == k.Class {
					fmt.Printf("  %s\n", v.Detail)
				}
			}
		}
		fmt.Printf("VIOLATION property=%s replay=%s\n  reproduced: oracle=%s class=%s trace_hash_identical=%s\n", rf.Property, file, rf.Oracle, rf.Class, same)
		return 1
	}
	fmt.Printf("NOT-REPRODUCED property=%s oracle=%s class=%s (the tree under test no longer shows this violation)\n", rf.Property, rf.Oracle, rf.Class)
	return 0
}
