package main

import (
	"encoding/json"
	"time"

	"verif/sim/worlds/uw"
)

var realCommon = []string{"go-slug (the code under test, built from /repo's working tree with -tags verif)", "archive/tar", "compress/gzip", "Linux kernel file system (tmpfs inside a chroot)", "os/filepath"}

func registerAll() {
	drivers["uw"] = &Driver{
		Expand: func(seed uint64, profile string) []scen {
			if profile == "sweep" {
				return uwSweep(seed)
			}
			sc := uw.Gen(seed, profile)
			b, _ := json.Marshal(sc)
			return []scen{{JSON: b, UID: sc.UID}}
		},
		Shrink:  uw.Shrink,
		OneShot: true,
		Timeout: 20 * time.Second,
	}
	registerPW()
	registerBW()
	defer func() {
		// quick-tier sizes: the cheaper checks run twice the base count (measured 5-10 s each on 16 cores)
		for _, id := range []string{"C03", "C05", "C08", "C09", "C10", "C13", "C14", "C16", "C17", "C18", "C20", "C02"} {
			if pl := plans[id]; pl != nil {
				for i := range pl.Legs {
					if pl.Legs[i].Profile != "faultsweep" && pl.Legs[i].Profile != "sweep" {
						pl.Legs[i].Quick *= 2
					}
				}
			}
		}
	}()

	uwSim := []string{"SimReader (chunking, read faults, truncation, stored-byte mutations)", "arena builder and total snapshot", "reference interpreter of entry sequences (model.UWModel)"}
	plans["C01"] = &Plan{ID: "C01", Level: "exploration",
		Legs:   []Leg{{World: "uw", Profile: "hostile", Quick: 20000, Weight: 5}, {World: "uw", Profile: "mixed", Quick: 10000, Weight: 3}, {World: "uw", Profile: "rawmut", Quick: 4000, Weight: 1}},
		Rule:   "each evaluation = one seeded Unpack scenario (1-3 archives of 1-12 entries into one destination, adversarial names/link targets, reader chunking and faults) executed on the real code in a chroot arena; total snapshot of the arena minus dst compared before/after every Unpack call. distinct = distinct canonical scenario hash; non-trivial = >=2 entries, or a fired reader fault, or a decorated name.",
		Assume: []string{"no other process writes into the arena during an operation", "linux/amd64 only", "bounds: <=12 entries (well-formed profile, one archive in ten: 13-40) x <=3 archives, path depth <=4, '..' runs <=6; destinations: plain, trailing slash, nested, through a symlinked parent, itself a symlink, only child of its parent"},
		Real:   realCommon, Sim: uwSim}
	plans["C04"] = &Plan{ID: "C04", Level: "exploration",
		Legs:   []Leg{{World: "uw", Profile: "hostile", Quick: 20000, Weight: 5}, {World: "uw", Profile: "mixed", Quick: 10000, Weight: 3}},
		Rule:   "each evaluation = one seeded Unpack scenario; after every Unpack return (success or error) every symlink under dst is resolved physically (Lstat/Readlink per component, lexically past the first missing one) and must stay inside dst unless allow-listed; no absolute non-allow-listed link may exist; a first ill-formed entry that is an escaping/absolute link must be refused with an illegal-slug error. distinct/non-trivial as for C01.",
		Assume: []string{"allow-list interpreted as documented (exact path or parent directory of the resolved target)", "bounds as C01"},
		Real:   realCommon, Sim: uwSim}
	plans["C15"] = &Plan{ID: "C15", Level: "exploration",
		Legs:   []Leg{{World: "uw", Profile: "small", Quick: 5000, Weight: 2, Index: true}, {World: "uw", Profile: "wellformed", Quick: 20000, Weight: 6}},
		Rule:   "each evaluation = one well-formed archive sequence (entries accepted by the reference interpreter: no '..', no path through a link, links relative and inside; same-type repeats, read-only repeats, children before parents, PAX/GNU/USTAR encodings, global headers, empty names, unrepresentable types, modification times at the epoch, before it, at the 32-bit limits and beyond) unpacked by the real code as uid 0 or 65534; dst is compared path by path with the reference interpreter's tree (type, content, mode&0777, mtime, link target; implicit parents for existence only). 'small' seeds index all sequences of length <=3 over a 6-path universe. distinct = scenario hash; non-trivial = >=2 entries or decorated name.",
		Assume: []string{"what the archive says = what Go's archive/tar reader decodes", "type-changing repeats are outside the strict class (outcome unspecified by the statement)", "implicit parent directories compared for existence only"},
		Real:   realCommon, Sim: uwSim}
}

// uwSweep expands one well-formed base archive into the full single-fault
// sweep over its compressed bytes (C12, Unpack side).
func uwSweep(seed uint64) []scen {
	base := uw.Gen(seed, "wellformed")
	base.Profile = "sweep"
	base.Archives = base.Archives[:1]
	// single gzip member: a cut exactly between two members leaves a stream that is itself a
	// complete (marker-less) archive, which no reader can tell from the whole one
	base.Archives[0].SplitMember = 0
	// the sweep visits every offset of the compressed stream: keep the bodies small
	for i := range base.Archives[0].Entries {
		base.Archives[0].Entries[i].Zero = 0
		if base.Archives[0].Entries[i].Pad > 6000 {
			base.Archives[0].Entries[i].Pad = 600
		}
	}
	raw, err := base.Archives[0].BuildTar()
	if err != nil {
		return nil
	}
	n := len(uw.Gzip(raw))
	var out []scen
	add := func(off int, kind string, sticky bool) {
		c := *base
		c.Archives = []uw.Archive{base.Archives[0]}
		c.Archives[0].Reader.Faults = []faultT{{Off: off, Kind: kind, Sticky: sticky}}
		b, _ := json.Marshal(&c)
		out = append(out, scen{JSON: b, UID: c.UID})
	}
	step := 1
	if n > 900 {
		step = n / 600
	}
	for off := 0; off <= n; off += step {
		for _, k := range []string{"err", "trunc", "uneof", "err+data"} {
			add(off, k, true)
		}
		if off%7 == 0 {
			add(off, "err", false) // transient
		}
		if off%5 == 0 {
			add(off, "err-wrapeof", false) // transient, and looks like an end of file to errors.Is
		}
	}
	// a stored byte flipped (one bit) anywhere in the compressed stream: the checksum in the
	// gzip trailer exists to notice exactly that, so either Unpack fails or what it
	// materialised is the archive
	for off := 0; off < n; off += step {
		c := *base
		c.Archives = []uw.Archive{base.Archives[0]}
		c.Archives[0].Reader.Muts = []mutT{{Kind: "flip", Off: off, Val: 1 << uint(off%8)}}
		b, _ := json.Marshal(&c)
		out = append(out, scen{JSON: b, UID: c.UID})
	}
	// always the last bytes (gzip trailer region) densely
	for off := n - 12; off <= n; off++ {
		if off > 0 && step > 1 {
			for _, k := range []string{"err", "trunc", "uneof"} {
				add(off, k, true)
			}
		}
	}
	return out
}
