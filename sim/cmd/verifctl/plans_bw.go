package main

import (
	"encoding/json"
	"time"

	"verif/sim/worlds/bw"
)

var bwSim = []string{"simulated PackageFetcher, RegistryClient, two DependencyFinder singletons and a recording BuildTracer (table-driven from the scenario's world; each call a yield point and fault site)", "task scheduler with schedule tape; builder mutex modelled through the verif hook", "SimPipe between WriteArchive and ExtractArchive", "reference closure over (source, finder) pairs with independent sub-path algebra and brute-force version selection", "reference ignore matcher"}

func registerBW() {
	drivers["bw"] = &Driver{
		Expand: func(seed uint64, profile string) []scen {
			switch profile {
			case "faultsweep":
				return bwFaultSweep(seed)
			case "hostile":
				return bwHostile(seed)
			}
			sc := bw.Gen(seed, profile)
			b, _ := json.Marshal(sc)
			return []scen{{JSON: b, UID: sc.UID}}
		},
		Shrink:  bw.Shrink,
		OneShot: true,
		Timeout: 20 * time.Second,
	}
	real := append([]string{"sourcebundle.Builder / Bundle / OpenDir / WriteArchive / ExtractArchive", "golang.org/x/mod dirhash", "go-versions (membership and ordering trusted)"}, realCommon...)
	plans["C08"] = &Plan{ID: "C08", Level: "exploration",
		Legs:   []Leg{{World: "bw", Profile: "clean", Quick: 3500, Weight: 3}, {World: "bw", Profile: "small", Quick: 1500, Weight: 1, Index: true}, {World: "bw", Profile: "faultsweep", Quick: 8, Weight: 1}},
		Rule:   "each evaluation = one generated world (<=6 remote packages with module locations, deps.F1/F2 declarations read back by the finder stubs through the fs.FS, <=3 registry packages x <=5 versions, local/remote/registry edges incl. cycles, diamonds, self-references, sub-paths on both sides of a registry hop) built by the real Builder from 1-6 Add calls issued by 1-3 client tasks; after an error-free build every pair of the reference closure must be found, inside the root, existing iff fetched, with exactly the fetched (rule-filtered) content, registry lookups equal to registry answer joined with caller sub-path, metadata unchanged. distinct = scenario hash; non-trivial = >=2 packages, a registry hop, a fault or >=2 tasks.",
		Assume: []string{"world addresses are generated in canonical spelling (asserted at run time, else the run is skipped)", "fetcher metadata always has a non-empty commit id when present"},
		Real:   real, Sim: bwSim}
	plans["C14"] = &Plan{ID: "C14", Level: "exploration",
		Legs:   []Leg{{World: "bw", Profile: "small", Quick: 2500, Weight: 2, Index: true}, {World: "bw", Profile: "clean", Quick: 2500, Weight: 3}, {World: "bw", Profile: "faultsweep", Quick: 8, Weight: 1}, {World: "bw", Profile: "errors", Quick: 800, Weight: 1}, {World: "bw", Profile: "trees", Quick: 800, Weight: 1}},
		Rule:   "each evaluation = one fault-free build (also builds that must refuse a fetched tree: the trace clauses hold there too); over the peers' call log: one fetch per distinct package of the reference closure (none for others), one version-list request per registry package, one source-address request per selected version, one analysis per (source, finder) pair of the closure; over the tracer's history: every start followed by exactly one success/failure, 'already' only after a success; total peer calls + trace events within 10 x (Add calls + declared dependencies) + 10, and no scheduler deadlock. 'small' seeds index the family <=3 packages x <=2 locations x edge subsets.",
		Assume: []string{"finder calls are keyed by (package directory, sub-path, finder); coalesced twin packages share a key and the expected count is the number of model pairs mapping to it"},
		Real:   real, Sim: bwSim}
	plans["C17"] = &Plan{ID: "C17", Level: "exploration",
		Legs:   []Leg{{World: "bw", Profile: "versions", Quick: 3000, Weight: 3}, {World: "bw", Profile: "clean", Quick: 1500, Weight: 1}, {World: "bw", Profile: "errors", Quick: 1000, Weight: 1}, {World: "bw", Profile: "faultsweep", Quick: 8, Weight: 1}},
		Rule:   "each evaluation = one build with registry requests (several against the same package, list order permuted, ruby-style constraints incl. exact, pessimistic, ranges, disjoint, pre-release); the versions the bundle holds and the versions the registry client was asked for must equal the brute-force maximum of offered-and-allowed per request; final sources use exactly their version; an empty intersection must produce an error diagnostic; recorded deprecation equals the registry's for that version.",
		Assume: []string{"versions.Set.Has and version comparison are go-versions' and trusted; no 0.0.0, no versions differing only in build metadata, no duplicates"},
		Real:   real, Sim: bwSim}
	plans["C13"] = &Plan{ID: "C13", Level: "exploration",
		Legs:   []Leg{{World: "bw", Profile: "order", Quick: 3000, Weight: 1}},
		Rule:   "each evaluation = one world whose Add set is executed 2-5 times: permuted Add order, permuted dependency/ version-list report order, distributed over 1-3 client tasks whose interleaving at every Lock/Unlock and peer call is decided by the schedule tape, and identical re-runs (map order); manifest bytes, ChecksumV1, target listing and relative lookup table must be identical, and fetched packages share a directory iff their filtered file path->content maps are equal. distinct interleavings = hashes of the (task, yield kind) sequence.",
		Assume: []string{"the cooperative scheduler cuts only at yield points; data races inside a critical section are outside its reach (the -race leg of DESIGN.md is not registered as a check)", "near-twins differ in a regular file's path or content only"},
		Real:   real, Sim: bwSim}
	plans["C09"] = &Plan{ID: "C09", Level: "exploration",
		Legs:   []Leg{{World: "bw", Profile: "post", Quick: 3000, Weight: 1}},
		Rule:   "each evaluation = one successful build followed by the generated post-operations 'reopen' (a restart: OpenDir on the directory, also by a relative spelling from another working directory) and 'ship' (WriteArchive and ExtractArchive as two scheduled tasks over a bounded SimPipe); the accessor fingerprint (packages, metadata, registry packages, versions, source addresses, deprecations, checksum, relative lookups) and the directory trees must equal those of the bundle returned by Close.",
		Assume: []string{"same platform on both sides"},
		Real:   real, Sim: bwSim}
	plans["C10"] = &Plan{ID: "C10", Level: "exploration",
		Legs:   []Leg{{World: "bw", Profile: "trees", Quick: 3000, Weight: 3}, {World: "bw", Profile: "clean", Quick: 1000, Weight: 1}, {World: "bw", Profile: "faultsweep", Quick: 6, Weight: 1}},
		Rule:   "each evaluation = one build whose fetcher delivers hostile trees (links relative/absolute, into a sibling, to the manifest, out of the bundle, to the temporary directory by name, chains, through rule-excluded directories, dangling, fifos); on success every package directory holds only files, directories and links that physically resolve to a file/directory inside the same package directory, no .tmp-* entry remains; whatever the outcome, a total snapshot shows nothing outside the target changed (TMPDIR and cwd are inside the snapshot).",
		Assume: []string{"special files needing privileges are not generated"},
		Real:   real, Sim: bwSim}
	plans["C18"] = &Plan{ID: "C18", Level: "exploration",
		Legs:   []Leg{{World: "bw", Profile: "post", Quick: 2500, Weight: 2}, {World: "bw", Profile: "hostile", Quick: 1500, Weight: 1}},
		Rule:   "each evaluation = stored-state corruption of a finished bundle's manifest (truncation, byte flips, field-wise hostile rewrites of directory names, addresses, versions, format number, duplicates) or a synthetic hostile manifest, followed by OpenDir: if it opens, every lookup for every address in it lies inside the root and directory names with a separator, '.' or '..' were refused; on every successfully built bundle every path under every package directory translates to an address and back to itself and outside paths are reported as not belonging.",
		Assume: []string{"which alias is returned for coalesced packages is not checked"},
		Real:   real, Sim: bwSim}
}

func bwC12Legs() []Leg {
	return []Leg{{World: "bw", Profile: "faultsweep", Quick: 16, Weight: 3}, {World: "bw", Profile: "errors", Quick: 1500, Weight: 1}, {World: "bw", Profile: "post", Quick: 800, Weight: 1}}
}

func bwC19Legs() []Leg {
	return []Leg{{World: "bw", Profile: "hostile", Quick: 2500, Weight: 2}}
}

func bwHostile(seed uint64) []scen {
	sc := bw.GenHostile(seed)
	b, _ := json.Marshal(sc)
	return []scen{{JSON: b, UID: sc.UID}}
}

// bwFaultSweep expands one base build into the single-fault sweep over its
// peer calls (plus sampled pairs, crash probes and the torn-manifest sweep).
func bwFaultSweep(seed uint64) []scen {
	base := bw.Gen(seed, "faultbase")
	base.Profile = "faultsweep"
	base.Variants = base.Variants[:1]
	var out []scen
	add := func(f func(c *bw.Scenario)) {
		c := *base
		c.Faults = nil
		c.Post = nil
		f(&c)
		b, _ := json.Marshal(&c)
		out = append(out, scen{JSON: b, UID: c.UID})
	}
	// fault-free base with crash probes at every callback boundary and the torn-manifest sweep
	add(func(c *bw.Scenario) { c.Post = []string{"crash-probe", "torn"} })
	kinds := map[string][]string{
		"fetch":    {"err", "torn", "torn-timeout", "cancel", "stall", "cancel-after"},
		"versions": {"err", "empty"},
		"source":   {"err"},
		"find":     {"err-diag"},
	}
	for _, site := range []string{"fetch", "versions", "source", "find"} {
		for n := 1; n <= 8; n++ {
			for _, k := range kinds[site] {
				site, n, k := site, n, k
				add(func(c *bw.Scenario) {
					c.Faults = []bw.PeerFault{{Site: site, N: n, Kind: k}}
					c.Post = []string{"crash-probe"}
				})
			}
		}
	}
	// pairs (sampled): a fetch fault followed by another fault
	for n := 1; n <= 3; n++ {
		n := n
		add(func(c *bw.Scenario) {
			c.Faults = []bw.PeerFault{{Site: "fetch", N: n, Kind: "err"}, {Site: "find", N: n + 1, Kind: "err-diag"}}
		})
		add(func(c *bw.Scenario) {
			c.Faults = []bw.PeerFault{{Site: "fetch", N: n, Kind: "stall"}, {Site: "fetch", N: n + 1, Kind: "torn"}}
		})
	}
	return out
}
