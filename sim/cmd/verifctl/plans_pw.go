package main

import (
	"encoding/json"
	"time"

	"verif/sim/worlds/pw"
)

func registerPW() {
	drivers["pw"] = &Driver{
		Expand: func(seed uint64, profile string) []scen {
			if profile == "sweep" {
				return pwSweep(seed)
			}
			sc := pw.Gen(seed, profile)
			b, _ := json.Marshal(sc)
			return []scen{{JSON: b, UID: sc.UID}}
		},
		Shrink:  pw.Shrink,
		OneShot: true,
		Timeout: 20 * time.Second,
		Ref: func(raw json.RawMessage) (json.RawMessage, bool) {
			var sc pw.Scenario
			if json.Unmarshal(raw, &sc) != nil || sc.Profile != "spell" || len(sc.History) == 0 || len(sc.Mutations) > 0 {
				return nil, false
			}
			sc.History, sc.HistAfter, sc.Tapes, sc.HaveTape = nil, 0, nil, false
			b, _ := json.Marshal(&sc)
			return b, true
		},
	}
	pwSim := []string{"SimWriter / SimReader / SimPipe (chunking, write faults, bounded pipe)", "task scheduler with schedule tape (concurrent Pack tasks, Chdir task, Pack||Unpack over the pipe)", "tree builder (the model tree is the generated node list)", "reference ignore matcher (model.Excluded)", "expected entry list / round-trip comparison"}
	plans["C02"] = &Plan{ID: "C02", Level: "exploration",
		Legs:   []Leg{{World: "pw", Profile: "roundtrip", Quick: 5000, Weight: 1}},
		Rule:   "each evaluation = one generated tree (<=25 nodes: files incl. empty/600 B/70 KiB, directories incl. empty, in-tree relative links incl. dangling and chained, fifos, rule file, odd modes, fractional mtimes, long/non-ASCII/odd names) packed by the real Pack and unpacked by the real Unpack into an empty directory, sequentially through a chunking SimReader or pipelined as two tasks over a bounded SimPipe whose interleaving comes from the schedule tape; the result tree is compared with the node list (type, content, mode, mtime rounded to the second, equivalent link target). distinct = scenario hash; non-trivial = has a link, a rule file, or pipelining.",
		Assume: []string{"special files are expected to be skipped", "directories selected by ignore rules are not compared (the statement fixes files)", "unprivileged runs use only modes readable by the uid"},
		Real:   realCommon, Sim: pwSim}
	plans["C03"] = &Plan{ID: "C03", Level: "exploration",
		Legs:   []Leg{{World: "pw", Profile: "ignore", Quick: 5000, Weight: 2}, {World: "bw", Profile: "rules", Quick: 2500, Weight: 1}},
		Rule:   "each evaluation = one generated tree + rule file (<=8 rules from the documented grammar, patterns built from the tree's own segment names) packed with ignore processing on or off, optionally after history operations in the same process (rule files starting with a negation, other options) and repeated; shipped file/link names are compared both ways with the independent segment-wise matcher; the bundle side is exercised by the BW legs. distinct = scenario hash; non-trivial = has rules/links/history.",
		Assume: []string{"strict two-way oracle on files and links, not on directory entries", "rule grammar avoids the three '**' corners the statement does not define"},
		Real:   realCommon, Sim: pwSim}
	plans["C05"] = &Plan{ID: "C05", Level: "exploration",
		Legs:   []Leg{{World: "pw", Profile: "links", Quick: 6000, Weight: 1}},
		Rule:   "each evaluation = one tree with in-tree, absolute, out-of-tree (file, directory, dangling, chained, sibling-prefix, absolute) links and links inside out-of-tree directories pointing back, packed with generated options; oracles: no OUT-token content unless reachable by dereferencing; no link entry that leaves the archive root at its own position unless allow-listed; out-of-tree link without dereference => illegal-slug error and no Meta; all-relative trees => Unpack accepts the slug.",
		Assume: []string{"in/out-of-tree is decided lexically, as the statement's examples do"},
		Real:   realCommon, Sim: pwSim}
	plans["C16"] = &Plan{ID: "C16", Level: "exploration",
		Legs:   []Leg{{World: "pw", Profile: "spell", Quick: 5000, Weight: 1}},
		Rule:   "each evaluation = one tree packed 2-5 times with the same options under different spellings of the source (absolute, trailing slash, dot, dot-dot detour, relative, through a symlink with absolute or relative target), working directories, preceding histories (placed before all runs or between the first run and the rest; and every scenario with a history is also executed without it in a fresh worker process, whose per-run output digests the runs after the history must equal), and (one third) as concurrent Pack tasks plus a Chdir task interleaved at writer yields by the schedule tape; decoded entry lists must be identical and, for trees without out-of-tree links, equal to the model's depth-first list. distinct = scenario hash.",
		Assume: []string{"interleaving granularity = writer calls (gzip buffers; small trees give few yields)", "under concurrency the source is spelled absolutely (a relative spelling would denote a different directory after Chdir)"},
		Real:   realCommon, Sim: pwSim}
	plans["C20"] = &Plan{ID: "C20", Level: "exploration",
		Legs:   []Leg{{World: "pw", Profile: "meta", Quick: 4000, Weight: 2}, {World: "pw", Profile: "links", Quick: 2000, Weight: 1}, {World: "pw", Profile: "ignore", Quick: 2000, Weight: 1}, {World: "pw", Profile: "mutate", Quick: 1200, Weight: 1}, {World: "pw", Profile: "sweep", Quick: 8, Weight: 1}},
		Rule:   "each evaluation = one successful Pack (any tree/options of the Pack world, incl. dereferenced files and directories, ignored subtrees, empty files, concurrent packs); Meta.Files must equal the decoded entry names in order and Meta.Size the stored content bytes and the sum of header sizes. distinct = scenario hash.",
		Assume: []string{"thin simulation dimension: evaluated on the simulator's runs, incl. concurrent ones"},
		Real:   realCommon, Sim: pwSim}
	plans["C12"] = &Plan{ID: "C12", Level: "fault_enumeration",
		Legs:   append([]Leg{{World: "uw", Profile: "sweep", Quick: 12, Weight: 2}, {World: "pw", Profile: "sweep", Quick: 30, Weight: 2}, {World: "uw", Profile: "wellformed", Quick: 3000, Weight: 1}, {World: "uw", Profile: "mixed", Quick: 3000, Weight: 1}, {World: "pw", Profile: "hostile", Quick: 800, Weight: 1}}, bwC12Legs()...),
		Rule:   "fault enumeration: for each seeded base scenario the single-fault space is swept, not sampled - Unpack: every compressed-byte offset x {err, trunc, uneof, err+data} (+ transient err), oracle: nil => dst equals the reference interpretation of the whole archive, policy rejections are illegal-slug errors; plus fault-free sequences of 1-3 archives into one (possibly populated) destination: nil => every link entry that is the last for its path is at that path with its target; Pack: every writer call index 1-12 x {err, partial+err} x {sticky, transient} and strided byte offsets, oracle: device error => Pack error and nil Meta; Build: every peer-call index x its fault kinds, oracles: error diagnostic returned, builder refuses afterwards (porcupine history check), no bundle from a failed build, target not openable at any callback boundary or with any torn manifest prefix, finder diagnostics delivered once with severity/text intact and file names rewritten. evaluations = faulted runs; distinct = scenario hash; non-trivial = a fault actually fired.",
		Assume: []string{"crash model: process death at a callback boundary with all completed system calls durable (go-slug never syncs and claims nothing about page-cache loss)", "syscall-level faults (EIO on open/rename) are not injected: no property quantifies over them", "a short write with nil error is not a fault kind (compress/flate discards the count)"},
		Real:   realCommon, Sim: append(pwSim, "SimReader fault plans", "fault-injecting fetcher/registry/finder peers", "porcupine poison-history model")}
	plans["C19"] = &Plan{ID: "C19", Level: "exploration",
		Legs:   append([]Leg{{World: "uw", Profile: "rawmut", Quick: 8000, Weight: 3}, {World: "uw", Profile: "mixed", Quick: 4000, Weight: 1}, {World: "pw", Profile: "hostile", Quick: 3000, Weight: 3}, {World: "pw", Profile: "mutate", Quick: 1200, Weight: 1}, {World: "pw", Profile: "sweep", Quick: 6, Weight: 1}}, bwC19Legs()...),
		Rule:   "each evaluation = one hostile scenario in a watched worker process: Unpack of tar streams with mutated header bytes (checksums repaired), truncations, garbage tails and second gzip members; Pack of trees with link cycles, directory loops reached by dereference, links to fifos, degenerate rule files, and with the output writer failing at every call index (the single-fault sweep of C12: an error must come back, not a hang); bundle opening of hostile manifests and parsing of hostile peer-supplied address strings. Oracles: no recovered panic, process does not die inside an operation, Read/Write/peer-call counts within the stated step bound, operation returns within 10 s of real time (confirmed by a solo re-run). distinct = scenario hash.",
		Assume: []string{"real-time budget only for blocking open(2) and runaway recursion, which cannot be counted in simulator steps"},
		Real:   realCommon, Sim: pwSim}
}

// pwSweep expands one base scenario into the single-fault sweep over its
// writer calls and byte offsets (C12, Pack side).
func pwSweep(seed uint64) []scen {
	base := pw.Gen(seed, "meta")
	base.Profile = "sweep"
	base.Conc = false
	base.Runs = base.Runs[:1]
	base.Runs[0].RoundTrip = ""
	var out []scen
	add := func(f func(r *pw.PackRun)) {
		c := *base
		c.Runs = []pw.PackRun{base.Runs[0]}
		f(&c.Runs[0])
		b, _ := json.Marshal(&c)
		out = append(out, scen{JSON: b, UID: c.UID})
	}
	// call-index sweep: small trees produce few calls; 1..12 covers them, later indexes simply never fire
	for call := 1; call <= 12; call++ {
		for _, k := range []string{"err", "partial+err"} {
			for _, sticky := range []bool{true, false} {
				call, k, sticky := call, k, sticky
				add(func(r *pw.PackRun) { r.Writer.CallFault, r.Writer.CallKind, r.Writer.CallSticky = call, k, sticky })
			}
		}
		call := call
		add(func(r *pw.PackRun) { r.Writer.CallFault, r.Writer.CallKind, r.Writer.CallSticky = call, "partial+eintr", false })
	}
	// byte-offset sweep (dense at the start, where the gzip header and first block land, then strided)
	for off := 0; off < 1200; off += 1 + off/40 {
		for _, k := range []string{"err", "partial+err"} {
			off, k := off, k
			add(func(r *pw.PackRun) { r.Writer.Faults = []faultT{{Off: off, Kind: k, Sticky: off%2 == 0}} })
		}
	}
	return out
}
