package main

import (
	"bufio"
	"encoding/json"
	"fmt"
	"io"
	"os"
	"os/exec"
	"path/filepath"
	"sync"
	"sync/atomic"
	"time"

	"verif/sim/simkit"
)

var scratchBase = func() string {
	if v := os.Getenv("VERIF_SCRATCH"); v != "" {
		return v
	}
	if fi, err := os.Stat("/dev/shm"); err == nil && fi.IsDir() {
		return "/dev/shm"
	}
	return os.TempDir()
}()

var arenaSeq int64

// Worker is one simworker process inside its own chroot arena.
type Worker struct {
	cmd  *exec.Cmd
	in   io.WriteCloser
	out  *bufio.Reader
	root string
	uid  int
	dead bool
}

func startWorker(bin string, uid int, env []string) (*Worker, error) {
	n := atomic.AddInt64(&arenaSeq, 1)
	root := filepath.Join(scratchBase, fmt.Sprintf("verif-%d-%d", os.Getpid(), n))
	if err := os.MkdirAll(root, 0o777); err != nil {
		return nil, err
	}
	cmd := exec.Command(bin, "-root", root, "-uid", fmt.Sprint(uid))
	cmd.Env = append(os.Environ(), env...)
	cmd.Stderr = &limitedBuf{max: 1 << 16}
	in, err := cmd.StdinPipe()
	if err != nil {
		return nil, err
	}
	outp, err := cmd.StdoutPipe()
	if err != nil {
		return nil, err
	}
	if err := cmd.Start(); err != nil {
		os.RemoveAll(root)
		return nil, err
	}
	return &Worker{cmd: cmd, in: in, out: bufio.NewReaderSize(outp, 1<<20), root: root, uid: uid}, nil
}

type limitedBuf struct {
	mu  sync.Mutex
	b   []byte
	max int
}

func (l *limitedBuf) Write(p []byte) (int, error) {
	l.mu.Lock()
	defer l.mu.Unlock()
	if len(l.b) < l.max {
		l.b = append(l.b, p...)
	}
	return len(p), nil
}

func (l *limitedBuf) String() string {
	l.mu.Lock()
	defer l.mu.Unlock()
	return string(l.b)
}

type doResult struct {
	out *simkit.Outcome
	err error
}

// Do sends one scenario and waits for its outcome. On timeout or process
// death the worker is killed; died/timedOut tell which.
func (w *Worker) Do(world string, scen json.RawMessage, events bool, timeout time.Duration, expect ...string) (o *simkit.Outcome, died, timedOut bool, stderr string) {
	req := map[string]interface{}{"world": world, "scenario": scen, "events": events}
	if len(expect) > 0 {
		req["expect"] = expect
	}
	b, _ := json.Marshal(req)
	b = append(b, '\n')
	if _, err := w.in.Write(b); err != nil {
		w.Kill()
		return nil, true, false, w.cmd.Stderr.(*limitedBuf).String()
	}
	ch := make(chan doResult, 1)
	go func() {
		line, err := w.out.ReadBytes('\n')
		if err != nil {
			ch <- doResult{nil, err}
			return
		}
		var out simkit.Outcome
		if e := json.Unmarshal(line, &out); e != nil {
			ch <- doResult{nil, e}
			return
		}
		ch <- doResult{&out, nil}
	}()
	select {
	case r := <-ch:
		if r.err != nil {
			w.Kill()
			return nil, true, false, w.cmd.Stderr.(*limitedBuf).String()
		}
		return r.out, false, false, ""
	case <-time.After(timeout):
		w.Kill()
		return nil, false, true, w.cmd.Stderr.(*limitedBuf).String()
	}
}

func (w *Worker) Kill() {
	if w.dead {
		return
	}
	w.dead = true
	w.in.Close()
	w.cmd.Process.Kill()
	w.cmd.Wait()
	forceRemove(w.root)
}

func (w *Worker) Close() {
	if w.dead {
		return
	}
	w.dead = true
	w.in.Close()
	done := make(chan struct{})
	go func() { w.cmd.Wait(); close(done) }()
	select {
	case <-done:
	case <-time.After(5 * time.Second):
		w.cmd.Process.Kill()
		<-done
	}
	forceRemove(w.root)
}

func forceRemove(p string) {
	if err := os.RemoveAll(p); err != nil {
		filepath.Walk(p, func(q string, info os.FileInfo, err error) error {
			if info != nil && info.IsDir() {
				os.Chmod(q, 0o700)
			}
			return nil
		})
		os.RemoveAll(p)
	}
}
