package main

import (
	"fmt"
	"os"
	"runtime"
	"sync"
	"time"
)

// cmdSelftest: "determinism [world profile nseeds]" runs each seed three times
// in separate worker processes at GOMAXPROCS 1, 4 and 16 and compares the
// trace hashes and verdicts.
type wp struct {
	w, p string
	n    int
}

func cmdSelftest(args []string) int {
	if len(args) == 0 || args[0] != "determinism" {
		fatal2("usage: verifctl selftest determinism [world profile nseeds]...")
	}
	sets := []wp{{"uw", "hostile", 300}, {"uw", "mixed", 300}, {"uw", "wellformed", 300}, {"uw", "rawmut", 200}}
	sets = append(sets, extraSelftestSets()...)
	if len(args) >= 4 {
		n := 0
		fmt.Sscan(args[3], &n)
		sets = []wp{{args[1], args[2], n}}
	}
	bin, cleanup := buildWorker(false, false)
	defer cleanup()
	bad := 0
	total := 0
	for _, s := range sets {
		drv := drivers[s.w]
		if drv == nil {
			continue
		}
		var mu sync.Mutex
		var wg sync.WaitGroup
		sem := make(chan struct{}, runtime.NumCPU())
		for seed := uint64(1); seed <= uint64(s.n); seed++ {
			for _, sc := range drv.Expand(seed*7919, s.p) {
				sc := sc
				seed := seed
				wg.Add(1)
				sem <- struct{}{}
				go func() {
					defer wg.Done()
					defer func() { <-sem }()
					var hashes []string
					for pi, procs := range []string{"1", "4", "16"} {
						if pi == 2 && seed%5 == 0 {
							// every fifth scenario: let the wall clock move on to another second, so that
							// anything derived from file creation times would show up as a divergence
							time.Sleep(1100 * time.Millisecond)
						}
						w, err := startWorker(bin, sc.UID, []string{"GOMAXPROCS=" + procs})
						if err != nil {
							fatal2("start worker: %v", err)
						}
						out, died, to, _ := w.Do(s.w, sc.JSON, false, drv.Timeout)
						w.Close()
						h := "died"
						if to {
							h = "timeout"
						}
						if !died && !to {
							h = out.TraceHash + fmt.Sprint(out.Violations) + out.Skipped + out.Harness
						}
						hashes = append(hashes, h)
					}
					mu.Lock()
					total++
					if hashes[0] != hashes[1] || hashes[1] != hashes[2] {
						bad++
						if bad < 10 {
							fmt.Fprintf(os.Stderr, "NONDETERMINISTIC %s/%s seed %d: %v\n", s.w, s.p, seed*7919, hashes)
						}
					}
					mu.Unlock()
				}()
				break // first expansion only
			}
		}
		wg.Wait()
		fmt.Printf("determinism %s/%s: %d scenarios x 3 processes (GOMAXPROCS 1/4/16), mismatches so far %d\n", s.w, s.p, s.n, bad)
	}
	if bad > 0 {
		fmt.Printf("DETERMINISM FAILED: %d of %d scenarios diverged\n", bad, total)
		return 2
	}
	fmt.Printf("determinism ok: %d scenarios\n", total)
	return 0
}
