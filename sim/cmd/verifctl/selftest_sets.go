package main

func extraSelftestSets() []wp { return nil }
