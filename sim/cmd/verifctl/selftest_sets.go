package main

func extraSelftestSets() []wp {
	return []wp{
		{"pw", "roundtrip", 150}, {"pw", "ignore", 150}, {"pw", "links", 150}, {"pw", "spell", 200}, {"pw", "meta", 100}, {"pw", "hostile", 100}, {"pw", "mutate", 60},
		{"bw", "clean", 200}, {"bw", "order", 150}, {"bw", "versions", 100}, {"bw", "trees", 100}, {"bw", "post", 150}, {"bw", "hostile", 100}, {"bw", "faultsweep", 40}, {"bw", "errors", 100}, {"bw", "rules", 100},
	}
}
