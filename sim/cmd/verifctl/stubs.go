package main

import "verif/sim/simkit"

type faultT = simkit.Fault
type mutT = simkit.Mutation
