package main

import "verif/sim/simkit"

type faultT = simkit.Fault

func registerBW() {}
func bwC12Legs() []Leg { return nil }
func bwC19Legs() []Leg { return nil }
