package main

import "verif/sim/simkit"

type faultT = simkit.Fault
