package main

import "verif/sim/simkit"

type faultT = simkit.Fault

func registerPW() {}
func registerBW() {}
