package model

import (
	"strings"
)

// IgRule is one rule of the reference ignore matcher. The matcher is written
// from the documented rule language (DESIGN.md, C03): whole-path, segment by
// segment, no regular expressions.
type IgRule struct {
	Neg      bool
	Anchored bool
	Dir      bool // trailing '/': everything strictly below a directory matching Segs
	Segs     []string
	Src      string
}

// DefaultIgRules are the built-in rules, in order.
func DefaultIgRules() []IgRule {
	return []IgRule{
		{Dir: true, Segs: []string{".terraform"}, Src: ".terraform/"},
		{Neg: true, Dir: true, Segs: []string{".terraform", "modules"}, Src: "!.terraform/modules/"},
		{Dir: true, Segs: []string{".git"}, Src: ".git/"},
	}
}

// ParseIgnore reads rule-file text onto the defaults.
func ParseIgnore(text string) []IgRule {
	rules := DefaultIgRules()
	for _, line := range strings.Split(text, "\n") {
		line = strings.TrimSpace(line)
		if line == "" || strings.HasPrefix(line, "#") {
			continue
		}
		r := IgRule{Src: line}
		if strings.HasPrefix(line, "!") {
			r.Neg = true
			line = line[1:]
		}
		if line == "" {
			continue
		}
		if i := strings.Index(line, "["); i >= 0 && !strings.Contains(line[i:], "]") {
			// a character class that is never closed: the line cannot be used, and a line that
			// cannot be used is skipped (Pack) while the others stay in force
			continue
		}
		if strings.HasSuffix(line, "/") {
			r.Dir = true
			line = strings.TrimRight(line, "/")
		}
		if strings.HasPrefix(line, "/") {
			r.Anchored = true
			line = strings.TrimLeft(line, "/")
		}
		if line == "" {
			continue
		}
		r.Segs = strings.Split(line, "/")
		rules = append(rules, r)
	}
	return rules
}

// Excluded decides the fate of the path (slash separated, relative) of a file
// or link from its own path only: last matching rule wins.
func Excluded(rules []IgRule, path string) bool {
	ps := strings.Split(path, "/")
	ex := false
	for _, r := range rules {
		if r.matches(ps) {
			ex = !r.Neg
		}
	}
	return ex
}

// DirSelected reports whether the directory path itself is selected by the
// rules ("trailing '/' selects a directory and everything below"; a plain
// pattern selects a directory of that path).
func DirSelected(rules []IgRule, path string) bool {
	ps := strings.Split(path, "/")
	ex := false
	for _, r := range rules {
		m := false
		if r.Dir {
			m = r.matchSegs(ps) || r.matches(ps)
		} else {
			m = r.matchSegs(ps)
		}
		if m {
			ex = !r.Neg
		}
	}
	return ex
}

func (r IgRule) matches(ps []string) bool {
	if r.Dir {
		for k := 1; k < len(ps); k++ {
			if r.matchSegs(ps[:k]) {
				return true
			}
		}
		return false
	}
	return r.matchSegs(ps)
}

func (r IgRule) matchSegs(ps []string) bool {
	pat := r.Segs
	if !r.Anchored {
		pat = append([]string{"**"}, pat...)
	}
	return globSegs(pat, ps)
}

// globSegs matches pattern segments against path segments; a "**" segment
// stands for zero or more segments, except as last pattern segment, where it
// needs at least one.
func globSegs(pat, ps []string) bool {
	if len(pat) == 0 {
		return len(ps) == 0
	}
	if pat[0] == "**" {
		if len(pat) == 1 {
			return len(ps) >= 1
		}
		for k := 0; k <= len(ps); k++ {
			if globSegs(pat[1:], ps[k:]) {
				return true
			}
		}
		return false
	}
	if len(ps) == 0 {
		return false
	}
	if !globSeg([]rune(pat[0]), []rune(ps[0])) {
		return false
	}
	return globSegs(pat[1:], ps[1:])
}

// globSeg: '*' any run of characters, '?' exactly one, '[...]' one character of a class,
// everything else literal.
func globSeg(p, s []rune) bool {
	if len(p) == 0 {
		return len(s) == 0
	}
	switch p[0] {
	case '*':
		for k := 0; k <= len(s); k++ {
			if globSeg(p[1:], s[k:]) {
				return true
			}
		}
		return false
	case '?':
		return len(s) > 0 && globSeg(p[1:], s[1:])
	case '[':
		// a character class: single characters and ranges, negated by a leading '^'
		end := -1
		for k := 2; k < len(p); k++ {
			if p[k] == ']' {
				end = k
				break
			}
		}
		if end < 0 {
			return len(s) > 0 && s[0] == '[' && globSeg(p[1:], s[1:])
		}
		if len(s) == 0 {
			return false
		}
		items := p[1:end]
		neg := false
		if len(items) > 0 && items[0] == '^' {
			neg, items = true, items[1:]
		}
		in := false
		for k := 0; k < len(items); k++ {
			if k+2 < len(items) && items[k+1] == '-' {
				if items[k] <= s[0] && s[0] <= items[k+2] {
					in = true
				}
				k += 2
			} else if items[k] == s[0] {
				in = true
			}
		}
		return in != neg && globSeg(p[end+1:], s[1:])
	default:
		return len(s) > 0 && s[0] == p[0] && globSeg(p[1:], s[1:])
	}
}

// Touches reports whether any rule, negated or not, matches the path as a
// file path, as a directory, or as something below a selected directory.
func Touches(rules []IgRule, path string) bool {
	ps := strings.Split(path, "/")
	for _, r := range rules {
		if r.matchSegs(ps) || r.matches(ps) {
			return true
		}
	}
	return false
}

// DirGone reports whether a directory must have vanished altogether: the last
// rule that decides its own fate selects it (a trailing-slash rule matching it,
// or a rule matching everything below via "**"), and no negated rule follows
// that could re-include anything below it.
func DirGone(rules []IgRule, path string) bool {
	ps := strings.Split(path, "/")
	last := -1
	ex := false
	for i, r := range rules {
		if r.Dir && r.matchSegs(ps) {
			ex = !r.Neg
			last = i
		} else if r.Dir && r.matches(ps) {
			ex = !r.Neg
			last = i
		}
	}
	if !ex || last < 0 {
		return false
	}
	for _, r := range rules[last+1:] {
		if r.Neg {
			return false
		}
	}
	return true
}
