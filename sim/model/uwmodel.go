// Package model holds the reference models the simulator's oracles compare
// go-slug against. They are written from the property statements, not from the
// code: trees are maps of segment lists, links are followed the way a kernel
// follows them, and ignore rules are matched segment by segment.
package model

import (
	"sort"
	"strings"
)

// DEntry is one archive entry as a tar reader reports it.
type DEntry struct {
	Name    string
	Type    byte // tar type flag
	Mode    int64
	MtimeNs int64
	Link    string
	Body    []byte
	Sparse  bool // declared a sparse file by its pax records: content and acceptance are unspecified
}

// Node is a node of the model tree.
type Node struct {
	Kind     byte // 'd', 'f', 'l'
	Explicit bool // had an entry of its own (attributes are prescribed)
	Mode     int64
	MtimeNs  int64
	Body     []byte
	Target   string
	Kids     map[string]*Node
	Unspec   bool // outcome for this path not fixed by the statement (type-changing repeat)
	ExplGen  int  // archive number of the last entry for this path
	TouchGen int  // archive number in which a direct child was last created (directory mtime moves)
}

// UWModel interprets entry sequences sequentially.
type UWModel struct {
	Gen   int // number of the archive being applied (set by the caller)
	Root  *Node
	Allow [][]string // allow-listed absolute paths as segment lists (dst-relative when they start inside)
	Dst   []string   // absolute segments of the destination
}

func NewUWModel(dst string, allow []string) *UWModel {
	m := &UWModel{Root: &Node{Kind: 'd', Kids: map[string]*Node{}}, Dst: segs(dst)}
	for _, a := range allow {
		if strings.HasPrefix(a, "/") {
			m.Allow = append(m.Allow, cleanAbs(segs(a)))
		} else {
			m.Allow = append(m.Allow, cleanAbs(append(append([]string{}, m.Dst...), segs(a)...)))
		}
	}
	return m
}

func segs(p string) []string {
	var out []string
	for _, s := range strings.Split(p, "/") {
		if s != "" {
			out = append(out, s)
		}
	}
	return out
}

func cleanAbs(ss []string) []string {
	var st []string
	for _, s := range ss {
		switch s {
		case ".":
		case "..":
			if len(st) > 0 {
				st = st[:len(st)-1]
			}
		default:
			st = append(st, s)
		}
	}
	return st
}

// Entry classes.
const (
	ClOK          = "ok"
	ClSkip        = "skip"         // empty name, PAX records
	ClRoot        = "rootref"      // names the destination itself; attributes of dst are not compared
	ClNameEscape  = "name-escape"  // name leaves the destination lexically
	ClNameDotDot  = "name-dotdot"  // name has '..' but stays inside: not in the well-formed class
	ClThroughLink = "through-link" // a parent component is a link at this moment
	ClLinkAbs     = "link-abs"
	ClLinkLex     = "link-lex-escape"
	ClLinkPhys    = "link-phys-escape" // escapes only when followed through another link
	ClUnsupported = "unsupported-type"
	ClConflict    = "conflict" // type-changing repeat, file used as directory, link repeated: unspecified
)

// IsPolicy reports whether class c must be answered with an illegal-slug error.
func IsPolicy(c string) bool {
	switch c {
	case ClNameEscape, ClThroughLink, ClLinkAbs, ClLinkLex, ClLinkPhys:
		return true
	}
	return false
}

func isSkipType(t byte) bool { return t == 'g' || t == 'x' }

// Apply interprets one entry and updates the tree when the entry is ok.
func (m *UWModel) Apply(e DEntry) string {
	if e.Name == "" {
		return ClSkip
	}
	if isSkipType(e.Type) {
		return ClSkip
	}
	raw := segs(e.Name)
	// lexical position of the name relative to dst
	depth := 0
	hasDD := false
	var path []string
	for _, s := range raw {
		switch s {
		case ".":
		case "..":
			hasDD = true
			depth--
			if depth < 0 {
				return ClNameEscape
			}
			path = path[:len(path)-1]
		default:
			depth++
			path = append(path, s)
		}
	}
	if hasDD {
		return ClNameDotDot
	}
	if e.Sparse {
		// nothing says whether a sparse file is expanded, refused or made with holes
		cur := m.Root
		for _, s := range path {
			if cur = cur.Kids[s]; cur == nil {
				break
			}
		}
		if cur != nil {
			cur.Unspec = true
		}
		return ClConflict
	}
	// supported types first: an unrepresentable type must fail wherever it is
	switch e.Type {
	case '0', 0, '5', '2':
	default:
		return ClUnsupported
	}
	if len(path) == 0 {
		if e.Type == '5' {
			// a directory entry for the top of the archive ("./", ".", "/"): it prescribes the
			// attributes of the destination directory itself
			m.Root.Explicit, m.Root.Mode, m.Root.MtimeNs, m.Root.ExplGen = true, e.Mode, e.MtimeNs, m.Gen
			return ClOK
		}
		return ClRoot
	}
	// walk parents
	cur := m.Root
	for i := 0; i < len(path)-1; i++ {
		k := cur.Kids[path[i]]
		if k == nil {
			k = &Node{Kind: 'd', Kids: map[string]*Node{}}
			cur.Kids[path[i]] = k
			cur.TouchGen = m.Gen
		}
		switch k.Kind {
		case 'l':
			return ClThroughLink
		case 'f':
			k.Unspec = true
			return ClConflict
		}
		cur = k
	}
	leaf := path[len(path)-1]
	ex := cur.Kids[leaf]
	switch e.Type {
	case '0', 0:
		if ex != nil && ex.Kind != 'f' {
			ex.Unspec = true
			return ClConflict
		}
		if ex == nil {
			cur.TouchGen = m.Gen
		}
		cur.Kids[leaf] = &Node{Kind: 'f', Explicit: true, Mode: e.Mode & 0o777, MtimeNs: e.MtimeNs, Body: e.Body, ExplGen: m.Gen}
		return ClOK
	case '5':
		if ex != nil && ex.Kind != 'd' {
			ex.Unspec = true
			return ClConflict
		}
		if ex == nil {
			ex = &Node{Kind: 'd', Kids: map[string]*Node{}}
			cur.Kids[leaf] = ex
			cur.TouchGen = m.Gen
		}
		ex.Explicit = true
		ex.ExplGen = m.Gen
		ex.Mode = e.Mode & 0o777
		ex.MtimeNs = e.MtimeNs
		return ClOK
	case '2':
		if e.Link == "" {
			return ClConflict // a link to nothing cannot be created at all
		}
		// classify the target before anything else
		c := m.classifyLink(path, e.Link)
		if ex != nil && (c == ClOK || c == ClLinkPhys) {
			// the path is taken: creating the link fails before anything about
			// where it would lead by way of other links can matter
			ex.Unspec = true
			return ClConflict
		}
		if c != ClOK {
			return c
		}
		cur.TouchGen = m.Gen
		cur.Kids[leaf] = &Node{Kind: 'l', Explicit: true, Target: e.Link, MtimeNs: e.MtimeNs, ExplGen: m.Gen}
		return ClOK
	}
	return ClUnsupported
}

func (m *UWModel) allowed(abs []string) bool {
	for _, a := range m.Allow {
		if len(abs) >= len(a) {
			ok := true
			for i := range a {
				if abs[i] != a[i] {
					ok = false
				}
			}
			if ok {
				return true
			}
		}
	}
	return false
}

// classifyLink decides whether a link at linkPath (dst-relative segments) with
// the given target is acceptable: relative, and staying inside dst both
// lexically and when followed through the links present in the model tree.
func (m *UWModel) classifyLink(linkPath []string, target string) string {
	if strings.HasPrefix(target, "/") {
		if m.allowed(cleanAbs(segs(target))) {
			return ClOK
		}
		return ClLinkAbs
	}
	// lexical
	abs := append(append([]string{}, m.Dst...), linkPath[:len(linkPath)-1]...)
	lex := append(append([]string{}, abs...), segs(target)...)
	// "climbs out" = ends up outside: a detour such as ../dst/a that comes back
	// in resolves inside and is not demanded to fail
	if !underSegs(cleanAbs(lex), m.Dst) {
		if m.allowed(cleanAbs(lex)) {
			return ClOK
		}
		return ClLinkLex
	}
	// a target that rises above the destination on its way, even if its text comes back in by
	// the destination's own name ("../dst/a"): it climbs out with '..', and where the
	// destination is reached through a link the name it comes back by is another place
	depth := len(linkPath) - 1
	for _, sg := range segs(target) {
		switch sg {
		case ".":
		case "..":
			depth--
		default:
			depth++
		}
		if depth < 0 {
			if m.allowed(cleanAbs(lex)) {
				return ClOK
			}
			return ClLinkLex
		}
	}
	// physical in the model tree
	if out := m.physEscapes(linkPath[:len(linkPath)-1], segs(target), 0); out {
		return ClLinkPhys
	}
	return ClOK
}

func underSegs(p, root []string) bool {
	if len(p) < len(root) {
		return false
	}
	for i := range root {
		if p[i] != root[i] {
			return false
		}
	}
	return true
}

// cleanWithin applies '.' and '..' and reports whether the path ever rises
// above its first keep segments.
func cleanWithin(ss []string, keep int) ([]string, bool) {
	var st []string
	esc := false
	for _, s := range ss {
		switch s {
		case ".":
		case "..":
			if len(st) > 0 {
				st = st[:len(st)-1]
			}
			if len(st) < keep {
				esc = true
			}
		default:
			st = append(st, s)
		}
	}
	if len(st) < keep {
		esc = true
	}
	return st, esc
}

// physEscapes follows todo from directory dir (dst-relative physical segments)
// through the model tree, in absolute terms: the walk may leave dst and come
// back by name. Outside dst nothing is known, so the walk continues lexically
// there. True when it ends outside dst.
func (m *UWModel) physEscapes(dir []string, todo []string, hops int) bool {
	stack := append(append([]string{}, m.Dst...), dir...)
	lexical := false
	for len(todo) > 0 {
		s := todo[0]
		todo = todo[1:]
		switch s {
		case ".":
			continue
		case "..":
			if len(stack) > 0 {
				stack = stack[:len(stack)-1]
			}
			continue
		}
		next := append(append([]string{}, stack...), s)
		if lexical || !underSegs(next, m.Dst) || len(next) == len(m.Dst) {
			stack = next
			continue
		}
		n := m.lookup(next[len(m.Dst):])
		if n == nil {
			lexical = true
			stack = next
			continue
		}
		if n.Kind == 'l' {
			hops++
			if hops > 40 {
				return false
			}
			if strings.HasPrefix(n.Target, "/") {
				// an allow-listed absolute link: leaves by permission
				return false
			}
			todo = append(segs(n.Target), todo...)
			continue
		}
		if n.Kind == 'f' && len(todo) > 0 {
			lexical = true
		}
		stack = next
	}
	return !underSegs(stack, m.Dst)
}

func (m *UWModel) lookup(path []string) *Node {
	cur := m.Root
	for _, s := range path {
		if cur == nil || cur.Kind != 'd' {
			return nil
		}
		cur = cur.Kids[s]
	}
	return cur
}

// Flat lists the model tree as path -> node, paths slash-joined, sorted.
func (m *UWModel) Flat() ([]string, map[string]*Node) {
	out := map[string]*Node{}
	var walk func(prefix string, n *Node)
	walk = func(prefix string, n *Node) {
		names := make([]string, 0, len(n.Kids))
		for k := range n.Kids {
			names = append(names, k)
		}
		sort.Strings(names)
		for _, k := range names {
			c := n.Kids[k]
			p := k
			if prefix != "" {
				p = prefix + "/" + k
			}
			out[p] = c
			if c.Kind == 'd' {
				walk(p, c)
			}
		}
	}
	walk("", m.Root)
	keys := make([]string, 0, len(out))
	for k := range out {
		keys = append(keys, k)
	}
	sort.Strings(keys)
	return keys, out
}

// ShapeHash summarises the model tree shape (an abstract state for reach counting).
func (m *UWModel) Shape() string {
	keys, nodes := m.Flat()
	var b strings.Builder
	for _, k := range keys {
		b.WriteString(k)
		b.WriteByte(':')
		b.WriteByte(nodes[k].Kind)
		b.WriteByte(';')
	}
	return b.String()
}
