package simkit

import (
	"crypto/sha256"
	"encoding/hex"
	"fmt"
	"io"
	"os"
	"path/filepath"
	"sort"
	"strings"
	"syscall"
)

// EnterArena chroots the process into root (a fresh scratch directory on
// tmpfs), makes "/" world-writable so that an unprivileged worker can build
// and wipe arenas, and drops to uid/gid when uid != 0. After this call the
// whole visible file system is the arena.
func EnterArena(root string, uid int) error {
	if err := os.Chmod(root, 0o777); err != nil {
		return fmt.Errorf("chmod arena root: %w", err)
	}
	if err := syscall.Chroot(root); err != nil {
		return fmt.Errorf("chroot %s: %w", root, err)
	}
	if err := os.Chdir("/"); err != nil {
		return err
	}
	os.Setenv("TMPDIR", "/tmp")
	os.Setenv("HOME", "/")
	if uid != 0 {
		if err := syscall.Setgroups([]int{uid}); err != nil {
			return fmt.Errorf("setgroups: %w", err)
		}
		if err := syscall.Setgid(uid); err != nil {
			return fmt.Errorf("setgid: %w", err)
		}
		if err := syscall.Setuid(uid); err != nil {
			return fmt.Errorf("setuid: %w", err)
		}
		if os.Getuid() != uid {
			return fmt.Errorf("setuid did not take effect")
		}
	}
	return nil
}

// WipeArena removes everything under "/" of the chroot.
func WipeArena() error {
	os.Chdir("/")
	ents, err := os.ReadDir("/")
	if err != nil {
		return err
	}
	for _, e := range ents {
		p := "/" + e.Name()
		if err := ForceRemoveAll(p); err != nil {
			return err
		}
	}
	return nil
}

// ForceRemoveAll removes a tree even when it contains unreadable directories.
func ForceRemoveAll(p string) error {
	if err := os.RemoveAll(p); err == nil {
		return nil
	}
	filepath.Walk(p, func(q string, info os.FileInfo, err error) error {
		if info != nil && info.IsDir() {
			os.Chmod(q, 0o700)
		}
		return nil
	})
	// second pass for directories that were unreadable during the first walk
	filepath.Walk(p, func(q string, info os.FileInfo, err error) error {
		if info != nil && info.IsDir() {
			os.Chmod(q, 0o700)
		}
		return nil
	})
	return os.RemoveAll(p)
}

// SnapEntry is what a total snapshot records per path. atime is excluded
// (the harness reads files).
type SnapEntry struct {
	Type   string // f d l p(ipe) c o
	Mode   uint32
	Size   int64
	Mtime  int64
	Ctime  int64
	Ino    uint64
	Sum    string
	Target string
}

func (e SnapEntry) String() string {
	return fmt.Sprintf("%s mode=%o size=%d mtime=%d ctime=%d ino=%d sum=%s target=%q", e.Type, e.Mode, e.Size, e.Mtime, e.Ctime, e.Ino, e.Sum, e.Target)
}

// Snapshot walks "/" and records every path except those at or below one of
// the excluded paths. Unreadable directories are recorded as such (their
// content then cannot change unnoticed relative to the same reader).
func Snapshot(exclude ...string) map[string]SnapEntry {
	out := map[string]SnapEntry{}
	var walk func(p string)
	walk = func(p string) {
		for _, x := range exclude {
			if p == x {
				// the excluded root itself is still watched for being replaced: its type,
				// inode and (if it became one) link target - not its attributes or contents
				if fi, err := os.Lstat(p); err == nil {
					st := fi.Sys().(*syscall.Stat_t)
					e := SnapEntry{Type: "excluded-root:" + fi.Mode().Type().String(), Ino: st.Ino}
					if fi.Mode()&os.ModeSymlink != 0 {
						e.Target, _ = os.Readlink(p)
					}
					out[p] = e
				}
				return
			}
		}
		fi, err := os.Lstat(p)
		if err != nil {
			out[p] = SnapEntry{Type: "?" + err.Error()}
			return
		}
		st := fi.Sys().(*syscall.Stat_t)
		e := SnapEntry{Mode: uint32(fi.Mode()), Size: fi.Size(), Mtime: fi.ModTime().UnixNano(),
			Ctime: st.Ctim.Sec*1e9 + st.Ctim.Nsec, Ino: st.Ino}
		switch {
		case fi.Mode()&os.ModeSymlink != 0:
			e.Type = "l"
			e.Target, _ = os.Readlink(p)
		case fi.IsDir():
			e.Type = "d"
			e.Size = 0
		case fi.Mode().IsRegular():
			e.Type = "f"
			if f, err := os.Open(p); err == nil {
				h := sha256.New()
				io.Copy(h, f)
				f.Close()
				e.Sum = hex.EncodeToString(h.Sum(nil))[:16]
			} else {
				e.Sum = "unreadable"
			}
		case fi.Mode()&os.ModeNamedPipe != 0:
			e.Type = "p"
		default:
			e.Type = "o"
		}
		out[p] = e
		if e.Type == "d" {
			ents, err := os.ReadDir(p)
			if err != nil {
				return
			}
			for _, c := range ents {
				if p == "/" {
					walk("/" + c.Name())
				} else {
					walk(p + "/" + c.Name())
				}
			}
		}
	}
	walk("/")
	return out
}

// DiffSnap lists the paths that differ between two snapshots.
func DiffSnap(a, b map[string]SnapEntry) []string {
	var out []string
	for p, ea := range a {
		eb, ok := b[p]
		if !ok {
			out = append(out, fmt.Sprintf("removed %s (%s)", p, ea.Type))
		} else if ea != eb {
			out = append(out, fmt.Sprintf("changed %s: %s -> %s", p, ea, eb))
		}
	}
	for p, eb := range b {
		if _, ok := a[p]; !ok {
			out = append(out, fmt.Sprintf("created %s (%s target=%q)", p, eb.Type, eb.Target))
		}
	}
	sort.Strings(out)
	return out
}

// Segs splits a slash path into its non-empty segments.
func Segs(p string) []string {
	var out []string
	for _, s := range strings.Split(p, "/") {
		if s != "" {
			out = append(out, s)
		}
	}
	return out
}

// Under reports segment-wise whether p is root or below it (both absolute, clean).
func Under(p, root string) bool {
	ps, rs := Segs(p), Segs(root)
	if len(ps) < len(rs) {
		return false
	}
	for i := range rs {
		if ps[i] != rs[i] {
			return false
		}
	}
	return true
}

// ResolvePhysical follows path p the way the kernel would, component by
// component with Lstat/Readlink, continuing lexically past the first missing
// component. It returns the resulting absolute path, whether the walk ended
// on something that exists, and an error for a link loop.
func ResolvePhysical(p string) (string, bool, error) {
	hops := 0
	var stack []string
	todo := Segs(p)
	exists := true
	for len(todo) > 0 {
		s := todo[0]
		todo = todo[1:]
		switch s {
		case ".":
			continue
		case "..":
			if len(stack) > 0 {
				stack = stack[:len(stack)-1]
			}
			continue
		}
		cur := "/" + strings.Join(append(append([]string{}, stack...), s), "/")
		if !exists {
			stack = append(stack, s)
			continue
		}
		fi, err := os.Lstat(cur)
		if err != nil {
			exists = false
			stack = append(stack, s)
			continue
		}
		if fi.Mode()&os.ModeSymlink != 0 {
			hops++
			if hops > 40 {
				return "", false, fmt.Errorf("link loop")
			}
			t, err := os.Readlink(cur)
			if err != nil {
				exists = false
				stack = append(stack, s)
				continue
			}
			if strings.HasPrefix(t, "/") {
				stack = nil
			}
			todo = append(Segs(t), todo...)
			continue
		}
		if !fi.IsDir() && len(todo) > 0 {
			// a non-directory in the middle: the kernel would say ENOTDIR;
			// continue lexically
			exists = false
		}
		stack = append(stack, s)
	}
	return "/" + strings.Join(stack, "/"), exists, nil
}
