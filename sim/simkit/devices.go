package simkit

import (
	"syscall"
	"errors"
	"fmt"
	"io"
)

// ErrInjected is the error every simulated device fault returns.
var ErrInjected = errors.New("simkit: injected device fault")

// Fault is one device fault: it fires when the stream offset reaches Off.
type Fault struct {
	Off    int    `json:"off"`
	Kind   string `json:"kind"`             // reader: err, err+data, trunc, uneof, zero, eof+data ; writer: err, partial+err ; pipe: break
	Sticky bool   `json:"sticky,omitempty"` // err keeps failing on later calls
}

// Mutation alters the stored bytes before they are read (input mutation, not a failure).
type Mutation struct {
	Kind string `json:"kind"` // flip, garbage-tail, second-member, cut
	Off  int    `json:"off,omitempty"`
	Val  int    `json:"val,omitempty"`
}

// ReaderPlan describes how a SimReader hands out its bytes.
type ReaderPlan struct {
	Chunks []int      `json:"chunks,omitempty"` // cycled; 0 or empty = whole
	Faults []Fault    `json:"faults,omitempty"`
	Muts   []Mutation `json:"muts,omitempty"`
}

// Yielder lets a device call be a scheduler yield point; nil for single-task runs.
type Yielder interface {
	YieldPoint(kind string)
}

// SimReader is the io.Reader the system under test reads a slug from.
type SimReader struct {
	Data         []byte
	Plan         ReaderPlan
	Log          *Log
	Y            Yielder
	Name         string
	off          int
	calls        int
	ci           int
	Fired        map[string]int
	dead         bool // sticky error state
	zeros        int
	Reads        int
	PostEOFReads int
}

func NewSimReader(name string, data []byte, plan ReaderPlan, log *Log, y Yielder) *SimReader {
	d := ApplyMutations(data, plan.Muts)
	return &SimReader{Name: name, Data: d, Plan: plan, Log: log, Y: y, Fired: map[string]int{}}
}

// ApplyMutations returns a mutated copy of data.
func ApplyMutations(data []byte, muts []Mutation) []byte {
	d := append([]byte(nil), data...)
	for _, m := range muts {
		switch m.Kind {
		case "flip":
			if len(d) > 0 {
				i := m.Off % len(d)
				if i < 0 {
					i = -i
				}
				v := byte(m.Val)
				if v == 0 {
					v = 1
				}
				d[i] ^= v
			}
		case "garbage-tail":
			n := m.Val%64 + 1
			for i := 0; i < n; i++ {
				d = append(d, byte(37*i+m.Off))
			}
		case "second-member":
			d = append(d, data...)
		case "cut":
			if m.Off >= 0 && m.Off < len(d) {
				d = d[:m.Off]
			}
		}
	}
	return d
}

func (r *SimReader) faultAt(off int) *Fault {
	for i := range r.Plan.Faults {
		f := &r.Plan.Faults[i]
		if f.Off == off && r.Fired[fmt.Sprintf("%d/%s", i, f.Kind)] == 0 {
			return f
		}
	}
	return nil
}

func (r *SimReader) nextFaultOff() int {
	best := -1
	for i := range r.Plan.Faults {
		f := &r.Plan.Faults[i]
		if f.Off >= r.off && r.Fired[fmt.Sprintf("%d/%s", i, f.Kind)] == 0 {
			if best < 0 || f.Off < best {
				best = f.Off
			}
		}
	}
	return best
}

func (r *SimReader) mark(f *Fault) {
	for i := range r.Plan.Faults {
		if &r.Plan.Faults[i] == f {
			r.Fired[fmt.Sprintf("%d/%s", i, f.Kind)]++
		}
	}
	r.Fired[f.Kind]++
}

func (r *SimReader) Read(p []byte) (n int, err error) {
	r.Reads++
	if r.Y != nil {
		r.Y.YieldPoint("read")
	}
	defer func() {
		e := ""
		if err != nil {
			e = err.Error()
		}
		r.Log.Add(-1, "read", fmt.Sprintf("%s off=%d n=%d err=%s", r.Name, r.off-n, n, e))
	}()
	if len(p) == 0 {
		return 0, nil
	}
	if r.dead {
		return 0, ErrInjected
	}
	if f := r.faultAt(r.off); f != nil {
		switch f.Kind {
		case "err":
			r.mark(f)
			if f.Sticky {
				r.dead = true
			}
			return 0, ErrInjected
		case "err-wrapeof":
			// a transient failure whose error value wraps io.EOF without being it (a transport
			// reporting "connection closed: EOF" once, then carrying on)
			r.mark(f)
			return 0, fmt.Errorf("sim: transport hiccup: %w", io.EOF)
		case "trunc":
			// lost tail: clean EOF from here on
			r.Fired["trunc"]++
			r.Data = r.Data[:r.off]
			return 0, io.EOF
		case "uneof":
			r.Fired["uneof"]++
			r.dead = true
			return 0, io.ErrUnexpectedEOF
		case "zero":
			if r.zeros < 3 {
				r.zeros++
				if r.zeros == 3 {
					r.mark(f)
				}
				return 0, nil
			}
		case "err+data":
			r.mark(f)
			r.dead = true
			k := 1
			if r.off+k > len(r.Data) {
				k = len(r.Data) - r.off
			}
			if k > len(p) {
				k = len(p)
			}
			copy(p, r.Data[r.off:r.off+k])
			r.off += k
			return k, ErrInjected
		}
	}
	if r.off >= len(r.Data) {
		r.PostEOFReads++
		return 0, io.EOF
	}
	want := len(p)
	if len(r.Plan.Chunks) > 0 {
		c := r.Plan.Chunks[r.ci%len(r.Plan.Chunks)]
		r.ci++
		if c > 0 && c < want {
			want = c
		}
	}
	if r.off+want > len(r.Data) {
		want = len(r.Data) - r.off
	}
	// never run past the next fault offset
	if nf := r.nextFaultOff(); nf > r.off && nf < r.off+want {
		want = nf - r.off
	}
	copy(p, r.Data[r.off:r.off+want])
	r.off += want
	if r.off == len(r.Data) {
		for i := range r.Plan.Faults {
			f := &r.Plan.Faults[i]
			if f.Kind == "eof+data" {
				r.mark(f)
				return want, io.EOF
			}
		}
	}
	return want, nil
}

// Offset is how many bytes have been handed out.
func (r *SimReader) Offset() int { return r.off }

// ---------------------------------------------------------------------------

// WriterPlan describes a SimWriter's faults.
type WriterPlan struct {
	Faults     []Fault `json:"faults,omitempty"`
	CallFault  int     `json:"call_fault,omitempty"` // 1-based index of the Write call that fails (0 = none)
	CallKind   string  `json:"call_kind,omitempty"`
	CallSticky bool    `json:"call_sticky,omitempty"`
}

// SimWriter is the io.Writer the system under test writes a slug to.
type SimWriter struct {
	Buf     []byte
	Plan    WriterPlan
	Log     *Log
	Y       Yielder
	Name    string
	Calls   int
	Fired   map[string]int
	Errored bool // the device returned an error at least once
	dead    bool
	fired   map[int]bool
}

func NewSimWriter(name string, plan WriterPlan, log *Log, y Yielder) *SimWriter {
	return &SimWriter{Name: name, Plan: plan, Log: log, Y: y, Fired: map[string]int{}, fired: map[int]bool{}}
}

func (w *SimWriter) Write(p []byte) (n int, err error) {
	w.Calls++
	if w.Y != nil {
		w.Y.YieldPoint("write")
	}
	defer func() {
		e := ""
		if err != nil {
			e = err.Error()
			w.Errored = true
		}
		w.Log.Add(-1, "write", fmt.Sprintf("%s off=%d len=%d n=%d err=%s", w.Name, len(w.Buf)-n, len(p), n, e))
	}()
	if w.dead {
		return 0, ErrInjected
	}
	if w.Plan.CallFault > 0 && w.Calls == w.Plan.CallFault {
		w.Fired["call/"+w.Plan.CallKind]++
		if w.Plan.CallSticky {
			w.dead = true
		}
		if w.Plan.CallKind == "partial+err" && len(p) > 1 {
			k := len(p) / 2
			w.Buf = append(w.Buf, p[:k]...)
			return k, ErrInjected
		}
		if w.Plan.CallKind == "partial+eintr" && len(p) > 1 {
			// what a signal does to a write on a pipe: part of the buffer is taken, and the call
			// is reported as interrupted
			k := len(p) / 2
			w.Buf = append(w.Buf, p[:k]...)
			return k, syscall.EINTR
		}
		return 0, ErrInjected
	}
	start := len(w.Buf)
	end := start + len(p)
	for i := range w.Plan.Faults {
		f := &w.Plan.Faults[i]
		if w.fired[i] {
			continue
		}
		if f.Off >= start && f.Off < end || (f.Off == start && len(p) == 0) {
			w.fired[i] = true
			w.Fired[f.Kind]++
			if f.Sticky {
				w.dead = true
			}
			k := 0
			if f.Kind == "partial+err" {
				k = f.Off - start
			}
			w.Buf = append(w.Buf, p[:k]...)
			return k, ErrInjected
		}
	}
	w.Buf = append(w.Buf, p...)
	return len(p), nil
}

// ---------------------------------------------------------------------------

// PipeSched is what a SimPipe needs from the scheduler.
type PipeSched interface {
	BlockCur(kind string, blocked func() bool)
	YieldPoint(kind string)
}

// SimPipe is a bounded buffer joining a writer task and a reader task. A full
// or empty pipe blocks the task in the simulator, never in the kernel.
type SimPipe struct {
	Cap     int
	buf     []byte
	wclosed bool
	rclosed bool
	broken  bool
	BreakAt int // total bytes after which the pipe breaks (<=0: never)
	total   int
	S       PipeSched
	Log     *Log
	Chunks  []int
	ci      int
	Fired   map[string]int
	MaxFill int
}

func NewSimPipe(capacity int, s PipeSched, log *Log) *SimPipe {
	if capacity < 1 {
		capacity = 1
	}
	return &SimPipe{Cap: capacity, S: s, Log: log, Fired: map[string]int{}}
}

type pipeW struct{ p *SimPipe }
type pipeR struct{ p *SimPipe }

func (p *SimPipe) Writer() io.WriteCloser { return pipeW{p} }
func (p *SimPipe) Reader() io.Reader      { return pipeR{p} }

// CloseRead makes further writes fail (reader went away).
func (p *SimPipe) CloseRead() { p.rclosed = true }

func (w pipeW) Write(b []byte) (int, error) {
	p := w.p
	n := 0
	for n < len(b) {
		p.S.BlockCur("pipe-w", func() bool { return len(p.buf) >= p.Cap && !p.rclosed && !p.broken })
		if p.broken || p.rclosed {
			p.Log.Add(-1, "pipe-write", fmt.Sprintf("n=%d err=broken", n))
			return n, ErrInjected
		}
		room := p.Cap - len(p.buf)
		k := len(b) - n
		if k > room {
			k = room
		}
		if p.BreakAt > 0 && p.total+k >= p.BreakAt {
			k = p.BreakAt - p.total
			if k < 0 {
				k = 0
			}
			p.buf = append(p.buf, b[n:n+k]...)
			p.total += k
			n += k
			p.broken = true
			p.Fired["break"]++
			p.Log.Add(-1, "pipe-write", fmt.Sprintf("n=%d err=break", n))
			return n, ErrInjected
		}
		p.buf = append(p.buf, b[n:n+k]...)
		p.total += k
		n += k
		if len(p.buf) > p.MaxFill {
			p.MaxFill = len(p.buf)
		}
	}
	p.Log.Add(-1, "pipe-write", fmt.Sprintf("n=%d", n))
	return n, nil
}

func (w pipeW) Close() error {
	w.p.wclosed = true
	w.p.S.YieldPoint("pipe-close")
	return nil
}

func (r pipeR) Read(b []byte) (int, error) {
	p := r.p
	if len(b) == 0 {
		return 0, nil
	}
	p.S.BlockCur("pipe-r", func() bool { return len(p.buf) == 0 && !p.wclosed && !p.broken })
	if len(p.buf) == 0 {
		if p.broken {
			p.Log.Add(-1, "pipe-read", "err=broken")
			return 0, ErrInjected
		}
		p.Log.Add(-1, "pipe-read", "eof")
		return 0, io.EOF
	}
	k := len(p.buf)
	if k > len(b) {
		k = len(b)
	}
	if len(p.Chunks) > 0 {
		c := p.Chunks[p.ci%len(p.Chunks)]
		p.ci++
		if c > 0 && c < k {
			k = c
		}
	}
	copy(b, p.buf[:k])
	p.buf = p.buf[k:]
	p.Log.Add(-1, "pipe-read", fmt.Sprintf("n=%d", k))
	return k, nil
}

// ---- adapters from Sched to the device interfaces ----

func (s *Sched) YieldPoint(kind string) {
	if s.cur != nil {
		s.cur.Yield(kind)
	}
}

func (s *Sched) BlockCur(kind string, blocked func() bool) {
	if s.cur != nil {
		s.cur.Block(kind, blocked)
	}
}
