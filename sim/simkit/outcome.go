package simkit

import (
	"crypto/sha256"
	"encoding/hex"
	"encoding/json"
)

// Violation is one atomic oracle failure.
type Violation struct {
	Prop   string `json:"prop"`
	Oracle string `json:"oracle"`          // stable oracle id, what the shrinker preserves
	Class  string `json:"class,omitempty"` // mechanism key used by known-finding matchers
	Detail string `json:"detail"`
}

// Outcome is what one simulated run reports.
type Outcome struct {
	World      string            `json:"world"`
	Profile    string            `json:"profile"`
	Seed       uint64            `json:"seed"`
	Violations []Violation       `json:"violations,omitempty"`
	TraceHash  string            `json:"trace_hash"`
	Steps      int               `json:"steps"`
	Faults     map[string]int    `json:"faults,omitempty"` // faults that actually fired, by kind
	Probes     map[string]int    `json:"probes,omitempty"`
	States     []string          `json:"states,omitempty"`  // abstract state hashes reached
	Digests    []string          `json:"digests,omitempty"` // per observed operation: digest of what it produced ("-" = not comparable); input to a comparison with the same operations in another process
	Inter      string            `json:"inter,omitempty"`   // interleaving hash
	Decisions  int               `json:"decisions,omitempty"`
	Nontrivial bool              `json:"nontrivial"`
	ScenHash   string            `json:"scen_hash"`
	Skipped    string            `json:"skipped,omitempty"`       // generator produced something unusable (counted, not a verdict)
	Tapes      [][]int           `json:"tapes,omitempty"`         // decisions of every scheduler of the run, in creation order
	Harness    string            `json:"harness_error,omitempty"` // infrastructure problem -> exit 2
	Scenario   json.RawMessage   `json:"scenario,omitempty"`
	Info       map[string]string `json:"info,omitempty"`
	Events     []string          `json:"events,omitempty"`
}

func (o *Outcome) Violate(prop, oracle, class, detail string) {
	if len(detail) > 600 {
		detail = detail[:600] + "…"
	}
	o.Violations = append(o.Violations, Violation{Prop: prop, Oracle: oracle, Class: class, Detail: detail})
}

func (o *Outcome) Probe(name string) {
	if o.Probes == nil {
		o.Probes = map[string]int{}
	}
	o.Probes[name]++
}

func (o *Outcome) Fault(kind string, n int) {
	if n == 0 {
		return
	}
	if o.Faults == nil {
		o.Faults = map[string]int{}
	}
	o.Faults[kind] += n
}

// HashJSON gives a short stable hash of any JSON-marshalable value.
func HashJSON(v interface{}) string {
	b, _ := json.Marshal(v)
	h := sha256.Sum256(b)
	return hex.EncodeToString(h[:10])
}

func HashString(s string) string {
	h := sha256.Sum256([]byte(s))
	return hex.EncodeToString(h[:8])
}
