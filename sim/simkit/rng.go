// Package simkit is the deterministic simulator core: one PRNG from which all
// generation choices derive, a canonical event log with a trace hash, a
// cooperative task scheduler driven by an explicit schedule tape, simulated
// stream devices with fault plans, and the chroot arena with total snapshots.
package simkit

// RNG is SplitMix64. Sub-streams are derived from (seed, label) so that adding
// a draw in one component does not shift the others.
type RNG struct{ s uint64 }

func fnv64(s string) uint64 {
	h := uint64(14695981039346656037)
	for i := 0; i < len(s); i++ {
		h ^= uint64(s[i])
		h *= 1099511628211
	}
	return h
}

func mix64(z uint64) uint64 {
	z = (z ^ (z >> 30)) * 0xBF58476D1CE4E5B9
	z = (z ^ (z >> 27)) * 0x94D049BB133111EB
	return z ^ (z >> 31)
}

// NewRNG returns the sub-stream of seed named by label.
func NewRNG(seed uint64, label string) *RNG {
	return &RNG{s: mix64(seed+0x9E3779B97F4A7C15) ^ mix64(fnv64(label))}
}

// Sub derives a further independent stream.
func (r *RNG) Sub(label string) *RNG {
	return &RNG{s: mix64(r.s) ^ mix64(fnv64(label)+1)}
}

func (r *RNG) U64() uint64 {
	r.s += 0x9E3779B97F4A7C15
	return mix64(r.s)
}

// Intn returns a value in [0,n). n<=0 returns 0.
func (r *RNG) Intn(n int) int {
	if n <= 1 {
		return 0
	}
	return int(r.U64() % uint64(n))
}

// Range returns a value in [lo,hi].
func (r *RNG) Range(lo, hi int) int {
	if hi <= lo {
		return lo
	}
	return lo + r.Intn(hi-lo+1)
}

// Chance is true with probability num/den.
func (r *RNG) Chance(num, den int) bool { return r.Intn(den) < num }

func Pick[T any](r *RNG, xs []T) T { return xs[r.Intn(len(xs))] }

// Shuffle permutes xs in place.
func Shuffle[T any](r *RNG, xs []T) {
	for i := len(xs) - 1; i > 0; i-- {
		j := r.Intn(i + 1)
		xs[i], xs[j] = xs[j], xs[i]
	}
}

// Weighted picks an index with probability proportional to w[i].
func (r *RNG) Weighted(w []int) int {
	t := 0
	for _, x := range w {
		t += x
	}
	if t <= 0 {
		return 0
	}
	k := r.Intn(t)
	for i, x := range w {
		if k < x {
			return i
		}
		k -= x
	}
	return len(w) - 1
}
