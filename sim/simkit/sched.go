package simkit

import (
	"crypto/sha256"
	"encoding/hex"
	"fmt"
	"regexp"
	"strings"
)

// Log is the canonical event log of one run. Logging never draws from a PRNG
// and never reads a clock. Its SHA-256 is the trace hash compared by the
// determinism self-test.
type Log struct {
	Events []string
	Steps  int // number of events (the simulator's only notion of time)
	Kinds  map[string]int
	keep   int
}

func NewLog() *Log { return &Log{Kinds: map[string]int{}, keep: 4000} }

var tmpName = regexp.MustCompile(`\.tmp-[0-9]+`)

// Canon rewrites run-specific strings (temporary directory names) to stable
// ones. Temp names are numbered in order of first appearance.
type Canon struct {
	seen map[string]string
}

func (c *Canon) Fix(s string) string {
	if !strings.Contains(s, ".tmp-") {
		return s
	}
	return tmpName.ReplaceAllStringFunc(s, func(m string) string {
		if c.seen == nil {
			c.seen = map[string]string{}
		}
		if v, ok := c.seen[m]; ok {
			return v
		}
		v := fmt.Sprintf(".tmp-#%d", len(c.seen)+1)
		c.seen[m] = v
		return v
	})
}

var canon Canon

// ResetCanon forgets temp-name numbering (call at scenario start).
func ResetCanon() { canon = Canon{} }

func CanonString(s string) string { return canon.Fix(s) }

func (l *Log) Add(task int, kind, detail string) {
	l.Steps++
	l.Kinds[kind]++
	if len(l.Events) < l.keep {
		l.Events = append(l.Events, fmt.Sprintf("%d t%d %s %s", l.Steps, task, kind, canon.Fix(detail)))
	} else if len(l.Events) == l.keep {
		l.Events = append(l.Events, "…truncated")
	}
}

func (l *Log) Hash() string {
	h := sha256.New()
	for _, e := range l.Events {
		h.Write([]byte(e))
		h.Write([]byte{'\n'})
	}
	fmt.Fprintf(h, "steps=%d", l.Steps)
	return hex.EncodeToString(h.Sum(nil))[:24]
}

// ---------------------------------------------------------------------------

// Task is a caller of the system under test: a real goroutine of which exactly
// one is released at a time. It hands control back only at yield points.
type Task struct {
	ID      int
	Name    string
	s       *Sched
	wake    chan struct{}
	done    bool
	started bool
	blocked func() bool // non-nil: runnable only when it returns false
	Err     interface{} // recovered panic of the task body, if any
}

// Sched decides every interleaving from the schedule tape. A tape entry is an
// index into the runnable set sorted by task id. When the tape is exhausted,
// draws come from Fallback (recording them) or, with a nil Fallback, the
// lowest runnable task id is taken – which makes shortening a tape a valid
// shrink step.
type Sched struct {
	Log       *Log
	Tape      []int
	Recorded  []int
	Fallback  *RNG
	Shape     string // "random", "rtc" (run to completion), "rr" (round robin)
	pos       int
	tasks     []*Task
	cur       *Task
	finished  chan error
	Decisions int // decisions with more than one runnable task
	inter     []string
	StepCap   int
	Deadlock  bool
	CapHit    bool
	holders   map[interface{}]*Task
	rr        int
}

func NewSched(log *Log, tape []int, fallback *RNG, shape string) *Sched {
	return &Sched{Log: log, Tape: tape, Fallback: fallback, Shape: shape,
		finished: make(chan error, 1), StepCap: 30000, holders: map[interface{}]*Task{}}
}

// Go registers a task. Bodies start when Run releases them.
func (s *Sched) Go(name string, fn func(t *Task)) *Task {
	t := &Task{ID: len(s.tasks), Name: name, s: s, wake: make(chan struct{}, 1)}
	s.tasks = append(s.tasks, t)
	go func() {
		<-t.wake
		defer func() {
			if r := recover(); r != nil {
				if _, ok := r.(abortRun); !ok {
					t.Err = r
				}
			}
			t.done = true
			s.Log.Add(t.ID, "task-end", t.Name)
			s.switchFrom(t, true)
		}()
		s.Log.Add(t.ID, "task-start", t.Name)
		fn(t)
	}()
	return t
}

type abortRun struct{}

// Run releases tasks one at a time until all are done, a deadlock (nothing
// runnable, something unfinished) or the step cap.
func (s *Sched) Run() error {
	if len(s.tasks) == 0 {
		return nil
	}
	next := s.pick(nil)
	s.cur = next
	next.wake <- struct{}{}
	return <-s.finished
}

// Cur is the task currently released (valid inside task bodies and hooks).
func (s *Sched) Cur() *Task { return s.cur }

// Multi reports whether more than one task was registered.
func (s *Sched) Multi() bool { return len(s.tasks) > 1 }

func (s *Sched) runnable() []*Task {
	var rs []*Task
	for _, t := range s.tasks {
		if t.done {
			continue
		}
		if t.blocked != nil && t.blocked() {
			continue
		}
		rs = append(rs, t)
	}
	return rs
}

func (s *Sched) pick(from *Task) *Task {
	rs := s.runnable()
	if len(rs) == 0 {
		return nil
	}
	if len(rs) == 1 {
		return rs[0]
	}
	s.Decisions++
	var idx int
	if s.pos < len(s.Tape) {
		idx = s.Tape[s.pos]
		if idx < 0 || idx >= len(rs) {
			idx = 0
		}
	} else if s.Fallback != nil {
		switch s.Shape {
		case "rtc":
			idx = 0
			if from != nil && !from.done {
				for i, t := range rs {
					if t == from {
						idx = i
					}
				}
			}
		case "rr":
			s.rr++
			idx = s.rr % len(rs)
		default:
			idx = s.Fallback.Intn(len(rs))
		}
	} else {
		idx = 0
	}
	s.pos++
	s.Recorded = append(s.Recorded, idx)
	return rs[idx]
}

// switchFrom hands control from t to the next chosen task. If ending is
// false, t parks until it is chosen again.
func (s *Sched) switchFrom(t *Task, ending bool) {
	if s.Log.Steps > s.StepCap && !s.CapHit {
		s.CapHit = true
	}
	if s.CapHit {
		// abandon the run: report and leave other goroutines parked
		if ending {
			select {
			case s.finished <- fmt.Errorf("step cap exceeded"):
			default:
			}
			return
		}
		select {
		case s.finished <- fmt.Errorf("step cap exceeded"):
		default:
		}
		<-t.wake // park forever
		panic(abortRun{})
	}
	next := s.pick(t)
	if next == nil {
		all := true
		for _, x := range s.tasks {
			if !x.done {
				all = false
			}
		}
		if all {
			s.finished <- nil
			return
		}
		s.Deadlock = true
		s.Log.Add(t.ID, "deadlock", "")
		s.finished <- fmt.Errorf("deadlock: no runnable task")
		if !ending {
			<-t.wake
			panic(abortRun{})
		}
		return
	}
	if next == t {
		return
	}
	s.cur = next
	next.wake <- struct{}{}
	if !ending {
		<-t.wake
	}
}

// Yield is a yield point at which the task stays runnable.
func (t *Task) Yield(kind string) {
	s := t.s
	if len(s.inter) < 4096 {
		s.inter = append(s.inter, fmt.Sprintf("%d:%s", t.ID, kind))
	}
	if len(s.tasks) == 1 {
		return
	}
	t.blocked = nil
	s.switchFrom(t, false)
}

// Block is a yield point at which the task is runnable only once cond is false.
func (t *Task) Block(kind string, blocked func() bool) {
	s := t.s
	if len(s.inter) < 4096 {
		s.inter = append(s.inter, fmt.Sprintf("%d:%s", t.ID, kind))
	}
	t.blocked = blocked
	s.switchFrom(t, false)
	t.blocked = nil
}

// InterleavingHash identifies the (task, yield kind) sequence of this run.
func (s *Sched) InterleavingHash() string {
	h := sha256.Sum256([]byte(strings.Join(s.inter, ",")))
	return hex.EncodeToString(h[:8])
}

// ---- modelled mutex (driven by the hook in sourcebundle, build tag verif) ----

// BeforeLock parks the current task until the modelled holder of m is nil and
// then records it as holder, so the real Lock never contends.
func (s *Sched) BeforeLock(m interface{}) {
	t := s.cur
	s.Log.Add(t.ID, "lock-req", "")
	t.Block("lock", func() bool { return s.holders[m] != nil })
	s.holders[m] = t
	s.Log.Add(t.ID, "lock-acq", "")
}

func (s *Sched) AfterUnlock(m interface{}) {
	t := s.cur
	delete(s.holders, m)
	s.Log.Add(t.ID, "unlock", "")
	t.Yield("unlock")
}

// TapeBook hands out schedule tapes to the schedulers a scenario creates, in
// creation order. Without pinned tapes every scheduler draws from its own
// PRNG sub-stream and the decisions are recorded; a replay file pins them, so
// the schedule is explicit data that the shrinker can shorten and zero.
type TapeBook struct {
	Tapes    [][]int
	Have     bool
	n        int
	Recorded [][]int
	scheds   []*Sched
}

// NewSched creates the next scheduler of the scenario.
func (b *TapeBook) NewSched(log *Log, seed uint64, label, shape string) *Sched {
	var tape []int
	var fb *RNG
	if b.Have {
		if b.n < len(b.Tapes) {
			tape = b.Tapes[b.n]
		}
		if tape == nil {
			tape = []int{}
		}
	} else {
		fb = NewRNG(seed, label)
	}
	b.n++
	s := NewSched(log, tape, fb, shape)
	b.scheds = append(b.scheds, s)
	return s
}

// Collect returns the decisions of all schedulers created so far.
func (b *TapeBook) Collect() [][]int {
	var out [][]int
	for _, s := range b.scheds {
		r := s.Recorded
		if r == nil {
			r = []int{}
		}
		out = append(out, r)
	}
	return out
}
