package bw

import (
	"fmt"
	"strconv"
	"strings"

	"verif/sim/simkit"
)

var addrShapes = []string{
	"git::https://example.com/org/repo%d.git",
	"git::https://example.com/org/repo%d.git|ref=v1.0",
	"git::ssh://example.com/repo%d.git",
	"https://example.com/pkg%d.tgz",
	"https://example.com/dl/pkg%d.tar.gz",
	"https://example.com/dl/pkg%d|archive=tgz",
	"https://example.com:8443/pkg%d.tgz",
	"https://example.com/p%%20kg%d.tgz",
	"git::https://example.com/org/repo%d.git|ref=main",
	"https://example.com/pkg%d.tgz|x=1&y=2",
}

var locPool = []string{"", "m1", "m1/sub", "m2", "sp ace"}
var versionPool = []string{"0.9.0", "1.0.0", "1.0.1", "1.2.0", "1.2.3", "2.0.0", "2.1.0-beta.1", "3.0.0-rc.1", "1.10.0", "1.4.0+build.7"}
var constrPool = []string{"", "", ">= 1.0.0", "~> 1.0", "~> 1.2.0", "< 2.0.0", ">= 1.0.0, < 2.0.0", "1.2.3", "1.0.0", "2.1.0-beta.1", ">= 0.0.1", "> 1.0.0", "!= 1.2.3", "<= 1.2.0", "< 0.5.0", "1.2.3, < 1.2.3", "2.0.0, != 2.0.0", "1.0.0, > 1.0.0"}

type gknobs struct {
	maxPkgs, maxRegs, maxAdds int
	f2                        bool
	twins                     bool
	rules                     bool
	hostileTrees              bool
	diags                     bool
	errCases                  bool // empty intersections, escaping locals, missing versions
	links                     bool // harmless in-package links
}

// Gen builds the scenario for (seed, profile). Pure.
func Gen(seed uint64, profile string) *Scenario {
	r := simkit.NewRNG(seed, "bw/cfg")
	sc := &Scenario{World: "bw", Profile: profile, Seed: seed, Umask: simkit.Pick(r, []int{0o022, 0o022, 0o027, 0o077})}
	if r.Chance(1, 4) {
		sc.UID = 65534
	}
	k := gknobs{maxPkgs: r.Range(1, 6), maxRegs: r.Range(0, 3), maxAdds: r.Range(1, 6)}
	if r.Chance(1, 2) {
		k.maxPkgs, k.maxAdds = r.Range(1, 3), r.Range(1, 3)
	}
	k.f2, k.twins, k.links = r.Chance(1, 2), r.Chance(1, 3), r.Chance(1, 4)
	tasks := 1
	nvar := 1
	switch profile {
	case "small":
		return genSmall(seed)
	case "clean":
		tasks = r.Weighted([]int{3, 2, 1}) + 1
		k.rules, k.diags = r.Chance(1, 5), r.Chance(1, 4)
		k.errCases = r.Chance(1, 10)
	case "order":
		nvar = r.Range(2, 5)
		tasks = r.Weighted([]int{2, 2, 1}) + 1
		k.twins = r.Chance(2, 3)
	case "versions":
		k.maxRegs = r.Range(1, 3)
		k.errCases = r.Chance(1, 4)
		tasks = r.Weighted([]int{4, 1}) + 1
	case "trees":
		k.hostileTrees, k.rules, k.links = true, r.Chance(1, 2), true
		k.maxPkgs = r.Range(1, 3)
	case "rules":
		k.rules = true
		k.maxPkgs = r.Range(1, 3)
	case "post":
		k.links, k.rules = r.Chance(1, 2), r.Chance(1, 4)
		sc.Post = []string{"reopen", "ship"}
		if r.Chance(1, 2) {
			sc.Post = append(sc.Post, "corrupt")
		}
		sc.PipeCap = simkit.Pick(r, []int{1, 64, 512, 4096, 65536})
		if r.Chance(1, 5) {
			// the connection carrying the archive breaks after this many bytes
			sc.PipeBreak = simkit.Pick(r, []int{1, 20, 300, 1000, 3000, 6000, 12000})
		}
		tasks = r.Weighted([]int{3, 1}) + 1
	case "errors":
		k.errCases = true
		k.maxRegs = r.Range(1, 3)
		tasks = r.Weighted([]int{2, 2, 1}) + 1
		k.diags = r.Chance(1, 3)
	case "faultbase":
		k.diags = true
		tasks = r.Weighted([]int{2, 2, 1}) + 1
		k.maxRegs = r.Range(0, 2)
	default:
		panic("bw: unknown profile " + profile)
	}
	genWorld(simkit.NewRNG(seed, "bw/world"), sc, &k)
	genAdds(simkit.NewRNG(seed, "bw/adds"), sc, &k)
	if dr := simkit.NewRNG(seed, "bw/shared-diag"); k.diags && len(sc.Pkgs) >= 2 && dr.Chance(1, 3) {
		// the same warning (same text, same package-relative file) in two packages: a finder
		// may well hand out one static value for it every time
		n := 0
		for pi := range sc.Pkgs {
			for mi := range sc.Pkgs[pi].Mods {
				m := &sc.Pkgs[pi].Mods[mi]
				if m.SubPath == "" && len(m.Diags) == 0 && n < 3 {
					m.Diags = []Diag{{ID: "diag-shared-" + m.Finder, Sev: "W", File: "main.tf"}}
					n++
					break
				}
			}
		}
	}
	if profile == "faultbase" && len(sc.Regs) > 0 {
		// the same registry package referenced twice in one build (first path and cached path),
		// so that a fault on the first reference is followed by a second reference
		rp := sc.Regs[0]
		sc.Adds = append(sc.Adds, Add{Kind: "registry", Addr: rp.Addr + "//m1", Constr: "", Finder: "F1"}, Add{Kind: "registry", Addr: rp.Addr + "//m2", Constr: "", Finder: "F1"})
		if len(sc.Pkgs) > 0 && len(sc.Pkgs[0].Mods) > 0 {
			m := &sc.Pkgs[0].Mods[0]
			m.Deps = append(m.Deps, Dep{Kind: "registry", Addr: rp.Addr, Constr: "", Finder: "F1"}, Dep{Kind: "registry", Addr: rp.Addr + "//sub", Constr: "", Finder: "F1"})
			// ... and that module is what the first call adds, so that the first request for the
			// version list (the one a fault on call 1 hits) is followed, in the same run, by the
			// second reference
			sc.Adds = append([]Add{{Kind: "remote", Addr: sc.Pkgs[0].Source(m.SubPath), Finder: m.Finder}}, sc.Adds...)
		}
	}
	// (after every other source of requests, so that none of them is left naming a range)
	metaTwins(simkit.NewRNG(seed, "bw/meta-twins"), sc)
	if er := simkit.NewRNG(seed, "bw/escape-with-warning"); len(sc.Pkgs) > 0 && len(sc.Pkgs[0].Mods) > 0 && er.Chance(1, 12) {
		// one analysis that declares a relative dependency climbing out of its package and also
		// reports a warning, nothing worse: the builder's own error must not get lost behind it
		m := &sc.Pkgs[0].Mods[0]
		m.Deps = append(m.Deps, Dep{Kind: "local", Addr: "../../../shared", Finder: m.Finder})
		var keep []Diag
		for _, d := range m.Diags {
			if d.Sev != "E" {
				keep = append(keep, d)
			}
		}
		m.Diags = append(keep, Diag{ID: "diag-warn-beside-escape", Sev: "W"})
		sc.Adds = append([]Add{{Kind: "remote", Addr: sc.Pkgs[0].Source(m.SubPath), Finder: m.Finder}}, sc.Adds...)
	}
	aliasSpelling(simkit.NewRNG(seed, "bw/alias-spelling"), sc)
	madeAddresses(simkit.NewRNG(seed, "bw/made-addresses"), sc)
	// (not with the post-build operations, whose oracles relate paths to the root as spelled)
	sc.TargetVia = len(sc.Post) == 0 && simkit.NewRNG(seed, "bw/target-via").Chance(1, 6)
	vr := simkit.NewRNG(seed, "bw/variants")
	for v := 0; v < nvar; v++ {
		va := Variant{SchedSeed: vr.U64(), Shape: simkit.Pick(vr, []string{"random", "random", "rr", "rtc"}), PermSalt: 0}
		for i := range sc.Adds {
			va.Order = append(va.Order, i)
		}
		if v > 0 {
			switch vr.Intn(4) {
			case 0: // identical repeat (map-order sensitivity)
			case 1:
				simkit.Shuffle(vr, va.Order)
			case 2:
				va.PermSalt = vr.U64() | 1
			default:
				simkit.Shuffle(vr, va.Order)
				va.PermSalt = vr.U64() | 1
			}
		}
		nt := tasks
		if v > 0 && vr.Chance(1, 2) {
			nt = vr.Range(1, 3)
		}
		for range va.Order {
			va.Tasks = append(va.Tasks, vr.Intn(nt))
		}
		sc.Variants = append(sc.Variants, va)
	}
	if profile == "post" && r.Chance(1, 2) {
		genCorruptions(simkit.NewRNG(seed, "bw/corrupt"), sc)
	}
	if r.Chance(1, 6) && profile != "order" {
		sc.CloseTask = true
	}
	xr := simkit.NewRNG(seed, "bw/extras")
	for pi := range sc.Pkgs {
		if pr := simkit.NewRNG(seed, "bw/pad-rules"+strconv.Itoa(pi)); sc.Pkgs[pi].Rules != nil && pr.Chance(1, 12) {
			s := padRules(*sc.Pkgs[pi].Rules)
			sc.Pkgs[pi].Rules = &s
		}
		if sc.Pkgs[pi].Rules != nil && xr.Chance(1, 6) && !hasPath(sc.Pkgs[pi].Files, "rules.ign") {
			sc.Pkgs[pi].RulesLink = true
		}
	}
	for vi := range sc.Variants {
		if xr.Chance(1, 5) {
			sc.Variants[vi].Tracer = simkit.Pick(xr, []string{"none", "nodiag", "foreign-ctx"})
		}
	}
	if profile == "post" && xr.Chance(1, 2) {
		sc.LinkRoots = true
	}
	if (profile == "rules" || profile == "clean" || profile == "trees") && r.Chance(1, 4) {
		sc.OtherPack = true
	}
	return sc
}

func genWorld(r *simkit.RNG, sc *Scenario, k *gknobs) {
	np := k.maxPkgs
	shapes := append([]string{}, addrShapes...)
	simkit.Shuffle(r, shapes)
	for i := 0; i < np; i++ {
		sh := shapes[i%len(shapes)]
		parts := strings.SplitN(fmt.Sprintf(sh, i+1), "|", 2)
		p := Pkg{Base: parts[0]}
		if len(parts) > 1 {
			p.Query = parts[1]
		}
		if !strings.HasPrefix(p.Base, "git::") && r.Chance(1, 6) {
			p.BlankMeta = true
		} else if strings.HasPrefix(p.Base, "git::") || r.Chance(1, 3) {
			p.Commit = fmt.Sprintf("%040x", r.U64())
			if r.Chance(1, 2) {
				p.Msg = fmt.Sprintf("commit message %d\nsecond line", i)
			}
		}
		// module locations
		locs := []string{""}
		for _, l := range locPool[1:] {
			if r.Chance(1, 2) {
				if l == "m1/sub" && !contains(locs, "m1") {
					locs = append(locs, "m1")
				}
				locs = append(locs, l)
			}
		}
		dirs := map[string]bool{}
		for _, l := range locs {
			if l != "" {
				for _, d := range prefixes(l) {
					if !dirs[d] {
						dirs[d] = true
						p.Files = append(p.Files, PFile{Path: d, Kind: "dir", Mode: 0o755})
					}
				}
			}
			p.Files = append(p.Files, PFile{Path: join(l, "main.tf"), Kind: "file", Body: fmt.Sprintf("PK%d-%s;", i+1, l), Mode: 0o644})
		}
		// a few extra files
		for e := r.Intn(4); e > 0; e-- {
			l := simkit.Pick(r, locs)
			name := simkit.Pick(r, []string{"extra.txt", "README", "vars.tf", ".hidden", "data.bin", "x y.txt", "ü.tf", "._main.tf", "._README", "net\\work.tf"})
			pa := join(l, name)
			if !hasPath(p.Files, pa) {
				mode := 0o644
				if r.Chance(1, 5) {
					mode = simkit.Pick(r, []int{0o600, 0o755, 0o444})
				}
				p.Files = append(p.Files, PFile{Path: pa, Kind: "file", Body: fmt.Sprintf("X%d-%s;", i+1, pa), Mode: mode})
			}
		}
		if r.Chance(1, 4) {
			// content the built-in rules speak about
			for _, d := range []string{".terraform", ".terraform/modules", ".git"} {
				if !hasPath(p.Files, d) {
					p.Files = append(p.Files, PFile{Path: d, Kind: "dir", Mode: 0o755})
				}
			}
			p.Files = append(p.Files, PFile{Path: ".terraform/modules/m.tf", Kind: "file", Body: fmt.Sprintf("TM%d;", i+1), Mode: 0o644})
			p.Files = append(p.Files, PFile{Path: ".terraform/environment", Kind: "file", Body: "default", Mode: 0o644})
			p.Files = append(p.Files, PFile{Path: ".git/config", Kind: "file", Body: "[core]", Mode: 0o644})
			if r.Chance(1, 2) {
				s := "!.terraform/environment\n"
				p.Rules = &s
			}
		}
		if nr := simkit.NewRNG(sc.Seed, fmt.Sprintf("bw/nested-builtin%d", i)); nr.Chance(1, 6) && !hasPath(p.Files, "examples") {
			// the same kinds of content deeper down, in a package that may have neither a rule
			// file nor anything of the kind at its top
			for _, d := range []string{"examples", "examples/basic", "examples/basic/.terraform", "examples/basic/.terraform/providers", "examples/basic/.terraform/modules", "examples/basic/.git"} {
				p.Files = append(p.Files, PFile{Path: d, Kind: "dir", Mode: 0o755})
			}
			p.Files = append(p.Files,
				PFile{Path: "examples/basic/main.tf", Kind: "file", Body: fmt.Sprintf("EX%d;", i+1), Mode: 0o644},
				PFile{Path: "examples/basic/.terraform/providers/p.bin", Kind: "file", Body: "PROVIDER;", Mode: 0o755},
				PFile{Path: "examples/basic/.terraform/modules/modules.json", Kind: "file", Body: "{}", Mode: 0o644},
				PFile{Path: "examples/basic/.git/HEAD", Kind: "file", Body: "ref: refs/heads/main", Mode: 0o644})
		}
		if r.Chance(1, 4) && !hasPath(p.Files, "emptydir") {
			p.Files = append(p.Files, PFile{Path: "emptydir", Kind: "dir", Mode: 0o755})
		}
		if k.links && r.Chance(1, 2) {
			p.Files = append(p.Files, PFile{Path: "link-main", Kind: "link", Target: "main.tf"})
			if r.Chance(1, 2) {
				// targets that are not lexically clean
				p.Files = append(p.Files, PFile{Path: "link-unclean", Kind: "link", Target: "./main.tf"})
				if contains(locs, "m1") {
					p.Files = append(p.Files, PFile{Path: "link-unclean2", Kind: "link", Target: "m1/../main.tf"})
				}
			}
			if contains(locs, "m1") {
				p.Files = append(p.Files, PFile{Path: "m1/up", Kind: "link", Target: "../main.tf"})
				p.Files = append(p.Files, PFile{Path: "link-dir", Kind: "link", Target: "m1"})
			}
		}
		if k.hostileTrees {
			addHostile(r, &p, i, np, sc.UID == 0)
		}
		if rr := simkit.NewRNG(sc.Seed, fmt.Sprintf("bw/ro-rule/%d", i)); k.rules && sc.UID != 0 && rr.Chance(1, 3) && !hasPath(p.Files, "rodir") {
			// an excluded file inside a directory the (unprivileged) builder cannot modify
			p.Files = append(p.Files, PFile{Path: "rodir", Kind: "dir", Mode: 0o555}, PFile{Path: "rodir/drop.txt", Kind: "file", Body: "DROP;", Mode: 0o644}, PFile{Path: "rodir/keep.txt", Kind: "file", Body: "KEEP;", Mode: 0o644})
			s := "rodir/drop.txt\n"
			p.Rules = &s
		}
		if k.rules && r.Chance(2, 3) {
			s := genPkgRules(r, &p)
			if p.Rules != nil {
				s = *p.Rules + s
			}
			p.Rules = &s
		}
		// module analyses
		for _, l := range locs {
			fs := []string{"F1"}
			if k.f2 && r.Chance(1, 3) {
				fs = append(fs, "F2")
			}
			for _, f := range fs {
				m := Mod{SubPath: l, Finder: f, Perm: 0}
				if k.diags && r.Chance(1, 3) {
					nd := r.Range(1, 2)
					for d := 0; d < nd; d++ {
						dg := Diag{ID: fmt.Sprintf("diag-%d-%s-%s-%d", i+1, l, f, d), Sev: "W"}
						if k.errCases && r.Chance(1, 6) {
							dg.Sev = "E"
						}
						switch r.Intn(4) {
						case 0:
							dg.File = join(l, "main.tf")
						case 1:
							dg.File = join(l, "main.tf")
							dg.CtxFile = join(l, "main.tf")
							if simkit.NewRNG(sc.Seed, "bw/diag-ctx-"+dg.ID).Chance(1, 2) {
								// the context lies in another file than the subject
								dg.CtxFile = join(l, "variables.tf")
							}
						case 2:
							dg.File = "/abs/not-a-subpath"
							if simkit.NewRNG(sc.Seed, "bw/diag-dot-"+dg.ID).Chance(1, 2) {
								// about the package's top directory as a whole
								dg.File = "."
							}
						}
						m.Diags = append(m.Diags, dg)
					}
				}
				p.Mods = append(p.Mods, m)
			}
		}
		sc.Pkgs = append(sc.Pkgs, p)
	}
	if er := simkit.NewRNG(sc.Seed, "bw/escape-twins"); len(sc.Pkgs) >= 2 && er.Chance(1, 10) {
		// two packages whose addresses differ only in how one path character is spelled
		// (percent-escaped or not): distinct packages as far as the library is concerned
		sc.Pkgs[0].Base, sc.Pkgs[0].Query = "https://example.com/dl/mod-v1.tgz", ""
		sc.Pkgs[len(sc.Pkgs)-1].Base, sc.Pkgs[len(sc.Pkgs)-1].Query = "https://example.com/dl/mod%2Dv1.tgz", ""
		sc.Pkgs[0].Commit, sc.Pkgs[len(sc.Pkgs)-1].Commit = "", ""
	}
	if ar := simkit.NewRNG(sc.Seed, "bw/archive-twins"); len(sc.Pkgs) >= 2 && ar.Chance(1, 10) {
		// two addresses that differ only in the go-getter "archive" argument: two packages
		sc.Pkgs[0].Base, sc.Pkgs[0].Query, sc.Pkgs[0].Commit = "https://example.com/dl/arch1.tgz", "", ""
		sc.Pkgs[len(sc.Pkgs)-1].Base, sc.Pkgs[len(sc.Pkgs)-1].Query, sc.Pkgs[len(sc.Pkgs)-1].Commit = "https://example.com/dl/arch1.tgz", "archive=tgz", ""
	}
	if cr := simkit.NewRNG(sc.Seed, "bw/same-commit"); len(sc.Pkgs) >= 2 && sc.Pkgs[0].Commit != "" && cr.Chance(1, 8) {
		// two addresses whose fetcher responses carry the same commit id (a clone and an archive
		// of the same commit, say) although the delivered trees differ
		sc.Pkgs[len(sc.Pkgs)-1].Commit = sc.Pkgs[0].Commit
		sc.Pkgs[len(sc.Pkgs)-1].BlankMeta = false
	}
	// registry packages
	for i := 0; i < k.maxRegs; i++ {
		host := simkit.Pick(r, []string{"example.com", "registry.terraform.io", "reg.example.org"})
		rp := RegPkg{Addr: fmt.Sprintf("%s/ns%d/name%d/sys", host, i+1, i+1)}
		vs := append([]string{}, versionPool...)
		simkit.Shuffle(r, vs)
		nv := r.Range(1, 5)
		for _, v := range vs[:nv] {
			p := simkit.Pick(r, sc.Pkgs)
			sub := ""
			if r.Chance(1, 2) {
				sub = pickLoc(r, &p)
			}
			rv := RegVer{V: v, Source: p.Source(sub)}
			if r.Chance(1, 4) {
				rv.DepReason = "deprecated " + v
				rv.DepLink = "https://example.com/dep/" + v
				if r.Chance(1, 3) {
					// the link is the registry's text, whatever it looks like
					if r.Chance(1, 4) {
						rv.DepReason = "" // a note that consists of a link only
					}
					rv.DepLink = simkit.Pick(r, []string{"HTTPS://Example.COM/Dep/" + v, "https://docs.example.com/m\u00f3dulos/aviso de baja#secci\u00f3n 2", "see the changelog", "", "https://example.com/a%2Fb?x=1&y=%20"})
				}
			}
			rp.Versions = append(rp.Versions, rv)
		}
		sc.Regs = append(sc.Regs, rp)
	}
	if tr := simkit.NewRNG(sc.Seed, "bw/reg-case-twins"); len(sc.Regs) >= 1 && len(sc.Regs[0].Versions) >= 1 && tr.Chance(1, 8) {
		// a second registry package whose address differs from the first in letter case only,
		// with a version list of its own
		first := sc.Regs[0]
		parts := strings.Split(first.Addr, "/")
		parts[1] = strings.ToUpper(parts[1][:1]) + parts[1][1:]
		tw := RegPkg{Addr: strings.Join(parts, "/")}
		vs := append([]string{}, versionPool...)
		simkit.Shuffle(tr, vs)
		for _, v := range vs[:tr.Range(1, 3)] {
			p := simkit.Pick(tr, sc.Pkgs)
			tw.Versions = append(tw.Versions, RegVer{V: v, Source: p.Source("")})
		}
		sc.Regs = append(sc.Regs, tw)
	}
	if hr := simkit.NewRNG(sc.Seed, "bw/reg-host-twins"); len(sc.Regs) >= 1 && len(sc.Regs[0].Versions) >= 1 && hr.Chance(1, 8) {
		// the same namespace, name and system on another host: another package, whose
		// registry offers fewer (and partly other) versions
		first := sc.Regs[0]
		parts := strings.Split(first.Addr, "/")
		for _, h := range []string{"example.com", "registry.terraform.io", "reg.example.org"} {
			if h != parts[0] {
				parts[0] = h
				break
			}
		}
		tw := RegPkg{Addr: strings.Join(parts, "/")}
		if sc.regIndexOf(tw.Addr) < 0 {
			p := simkit.Pick(hr, sc.Pkgs)
			tw.Versions = append(tw.Versions, RegVer{V: first.Versions[len(first.Versions)-1].V, Source: p.Source("")})
			if hr.Chance(1, 2) {
				tw.Versions = append(tw.Versions, RegVer{V: "0.1.0", Source: p.Source("")})
			}
			sc.Regs = append(sc.Regs, tw)
		}
	}
	// dependency edges
	for pi := range sc.Pkgs {
		p := &sc.Pkgs[pi]
		for mi := range p.Mods {
			m := &p.Mods[mi]
			nd := r.Weighted([]int{3, 3, 2, 1})
			for d := 0; d < nd; d++ {
				fd := "F1"
				if k.f2 && r.Chance(1, 3) {
					fd = "F2"
				}
				switch r.Weighted([]int{3, 3, 2}) {
				case 0:
					m.Deps = append(m.Deps, Dep{Kind: "local", Addr: localAddr(r, p, m.SubPath, k.errCases), Finder: fd})
				case 1:
					q := simkit.Pick(r, sc.Pkgs)
					m.Deps = append(m.Deps, Dep{Kind: "remote", Addr: q.Source(pickLoc(r, &q)), Finder: fd})
				case 2:
					if len(sc.Regs) == 0 {
						continue
					}
					rp := simkit.Pick(r, sc.Regs)
					a := rp.Addr
					if r.Chance(1, 3) {
						a += "//" + simkit.Pick(r, []string{"m1", "m2", "m1/sub", "sub"})
					}
					m.Deps = append(m.Deps, Dep{Kind: "registry", Addr: a, Constr: pickConstr(r, k), Finder: fd})
				}
			}
			if len(m.Deps) > 1 && r.Chance(1, 4) {
				m.Twice = true
			}
			if dr := simkit.NewRNG(sc.Seed, fmt.Sprintf("bw/dup-reg-dep/%d/%d", pi, mi)); dr.Chance(1, 6) {
				// the same registry source reported twice by one analysis, with different version sets
				for _, d := range m.Deps {
					if d.Kind == "registry" {
						d2 := d
						d2.Constr = pickConstr(dr, k)
						m.Deps = append(m.Deps, d2)
						break
					}
				}
			}
		}
	}
	// twins: same content under another address
	if k.twins && len(sc.Pkgs) >= 2 {
		a, b := 0, len(sc.Pkgs)-1
		src := sc.Pkgs[a]
		tw := &sc.Pkgs[b]
		tw.Files = append([]PFile{}, src.Files...)
		tw.Rules = src.Rules
		tw.Mods = nil
		for _, m := range src.Mods {
			c := m
			c.Deps = append([]Dep{}, m.Deps...)
			c.Diags = append([]Diag{}, m.Diags...)
			tw.Mods = append(tw.Mods, c)
		}
		switch r.Intn(3) {
		case 0: // exact twin: same paths and contents
		case 1: // near twin: one content differs
			for i := range tw.Files {
				if tw.Files[i].Kind == "file" {
					tw.Files[i].Body += "~"
					break
				}
			}
		case 2: // near twin: one path differs
			tw.Files = append(tw.Files, PFile{Path: "only-in-twin.txt", Kind: "file", Body: "T;", Mode: 0o644})
		}
		if dr := simkit.NewRNG(sc.Seed, "bw/twin-dirlink"); dr.Chance(1, 4) {
			// near twin: the same regular files, and one more path - a link to one of its directories
			for _, f := range src.Files {
				if f.Kind == "dir" && !strings.Contains(f.Path, "/") && !hasPath(tw.Files, "dl-"+f.Path) {
					tw.Files = append(tw.Files, PFile{Path: "dl-" + f.Path, Kind: "link", Target: f.Path})
					break
				}
			}
		}
		if xr := simkit.NewRNG(sc.Seed, "bw/twin-dirlink-text"); xr.Chance(1, 5) {
			// one twin holds a link to one of its directories, the other a regular file of the same
			// name whose bytes describe such a link: two different trees
			src := &sc.Pkgs[a]
			for _, f := range src.Files {
				if f.Kind == "dir" && !strings.Contains(f.Path, "/") && !hasPath(tw.Files, "dt-"+f.Path) && !hasPath(src.Files, "dt-"+f.Path) {
					src.Files = append(src.Files, PFile{Path: "dt-" + f.Path, Kind: "link", Target: f.Path})
					tw.Files = append(tw.Files, PFile{Path: "dt-" + f.Path, Kind: "file", Body: "symlink to directory " + f.Path, Mode: 0o644})
					break
				}
			}
		}
		if fr := simkit.NewRNG(sc.Seed, "bw/twin-filelink"); fr.Chance(1, 5) {
			// one twin holds a regular file, the other a link (to a file of the package with the
			// same bytes) under that name: two different trees with equal bytes behind every name
			src := &sc.Pkgs[a]
			if !hasPath(src.Files, "copy.tf") && !hasPath(tw.Files, "copy.tf") && hasPath(src.Files, "main.tf") {
				body := ""
				for _, f := range src.Files {
					if f.Path == "main.tf" {
						body = f.Body
					}
				}
				same := true
				for _, f := range tw.Files {
					if f.Path == "main.tf" && f.Body != body {
						same = false
					}
				}
				if same {
					src.Files = append(src.Files, PFile{Path: "copy.tf", Kind: "file", Body: body, Mode: 0o644})
					tw.Files = append(tw.Files, PFile{Path: "copy.tf", Kind: "link", Target: "main.tf"})
				}
			}
		}
		if lr := simkit.NewRNG(sc.Seed, "bw/twin-link"); k.hostileTrees && lr.Chance(1, 2) {
			// the twin delivers one file as a link to a file outside the bundle that holds the
			// same bytes: hashed through the link the two trees are equal, but the twin must be refused
			src := &sc.Pkgs[a]
			if !hasPath(src.Files, "shared.txt") {
				// (both without the other hostile entries of this profile: the first must build)
				var clean []PFile
				for _, f := range src.Files {
					if !strings.HasPrefix(f.Path, "h-") && !strings.HasPrefix(f.Path, "hd") && !strings.HasPrefix(f.Path, "ign") {
						clean = append(clean, f)
					}
				}
				src.Files = append(append([]PFile{}, clean...), PFile{Path: "shared.txt", Kind: "file", Body: "OUT-victim", Mode: 0o644})
				tw.Files = append(append([]PFile{}, clean...), PFile{Path: "shared.txt", Kind: "link", Target: "/w/victim"})
			}
		}
		if rr := simkit.NewRNG(sc.Seed, "bw/twin-rodir"); rr.Chance(1, 4) {
			// both twins hold a read-only directory with a file in it: whoever comes second has
			// to discard its own copy, which an unprivileged user cannot do
			src := &sc.Pkgs[a]
			if !hasPath(src.Files, "ro") {
				for _, t := range []*Pkg{src, tw} {
					t.Files = append(t.Files, PFile{Path: "ro", Kind: "dir", Mode: 0o555}, PFile{Path: "ro/f.txt", Kind: "file", Body: "RO;", Mode: 0o444})
				}
			}
		}
		if tr := simkit.NewRNG(sc.Seed, "bw/twin-spelling"); tr.Chance(1, 4) {
			// a file name spelled composed in one package and decomposed in the other: two
			// different paths (on a file system that keeps them apart, as this one does)
			src := &sc.Pkgs[a]
			if !hasPath(src.Files, "caf\u00e9.txt") {
				src.Files = append(src.Files, PFile{Path: "caf\u00e9.txt", Kind: "file", Body: "NF;", Mode: 0o644})
				tw.Files = append(tw.Files, PFile{Path: "cafe\u0301.txt", Kind: "file", Body: "NF;", Mode: 0o644})
			}
		}
		if simkit.NewRNG(sc.Seed, "bw/twin-mode").Chance(1, 3) {
			// same paths and contents, one permission bit differs: still one directory
			for i := range tw.Files {
				if tw.Files[i].Kind == "file" {
					tw.Files[i].Mode ^= 0o111
					break
				}
			}
		}
	}
}

// metaTwins turns one registry package (one run in ten) into one that offers two
// versions differing in build metadata only, at different source addresses. Such versions
// have no order between them, so every request for that package is rewritten to name
// one version exactly (the constraint grammar and the final-address form both can).
func metaTwins(r *simkit.RNG, sc *Scenario) {
	if len(sc.Regs) == 0 || len(sc.Pkgs) < 2 || !r.Chance(1, 10) {
		return
	}
	ri := r.Intn(len(sc.Regs))
	rp := &sc.Regs[ri]
	pa, pb := sc.Pkgs[0], sc.Pkgs[len(sc.Pkgs)-1]
	rp.Versions = []RegVer{
		{V: "1.0.0+linux", Source: pa.Source("")},
		{V: "1.0.0+darwin", Source: pb.Source("")},
		{V: "0.9.0", Source: pa.Source("")},
	}
	if r.Chance(1, 3) {
		rp.Versions[1].DepReason, rp.Versions[1].DepLink = "deprecated darwin build", "https://example.com/dep/darwin"
	}
	exact := []string{"1.0.0+linux", "1.0.0+darwin", "0.9.0", "1.0.0+darwin"}
	lastAdd := []string{"1.0.0+linux", "1.0.0+darwin"}
	if simkit.NewRNG(sc.Seed, "bw/meta-twins-plain").Chance(1, 2) {
		// one of the twins carries no build metadata at all, and comes first in the list
		rp.Versions[0].V, rp.Versions[1].V = "1.4.0", "1.4.0+build.7"
		exact = []string{"1.4.0", "1.4.0+build.7", "0.9.0", "1.4.0"}
		lastAdd = []string{"1.4.0+build.7", "1.4.0"}
	}
	mine := func(addr string) bool {
		pk, _ := splitSub(addr)
		if i := strings.Index(pk, "@"); i >= 0 {
			pk = pk[:i]
		}
		return pk == rp.Addr
	}
	for i := range sc.Adds {
		a := &sc.Adds[i]
		switch {
		case a.Kind == "registry" && mine(a.Addr):
			a.Constr = simkit.Pick(r, exact)
		case a.Kind == "final" && mine(a.Addr):
			pk, sub := splitSub(a.Addr)
			pk = pk[:strings.Index(pk, "@")] + "@" + simkit.Pick(r, exact)
			if sub != "" {
				pk += "//" + sub
			}
			a.Addr = pk
		}
	}
	for pi := range sc.Pkgs {
		for mi := range sc.Pkgs[pi].Mods {
			ds := sc.Pkgs[pi].Mods[mi].Deps
			for di := range ds {
				if ds[di].Kind == "registry" && mine(ds[di].Addr) {
					ds[di].Constr = simkit.Pick(r, exact)
				}
			}
		}
	}
	// make sure both twins are asked for
	sc.Adds = append(sc.Adds, Add{Kind: "registry", Addr: rp.Addr, Constr: lastAdd[0], Finder: "F1"}, Add{Kind: "final", Addr: rp.Addr + "@" + lastAdd[1], Finder: "F1"})
	if simkit.NewRNG(sc.Seed, "bw/meta-twins-open").Chance(1, 3) {
		// ... and once without saying which: both twins are the greatest version offered
		sc.Adds = append(sc.Adds, Add{Kind: "registry", Addr: rp.Addr, Constr: "", Finder: "F2"})
	}
}

func pickConstr(r *simkit.RNG, k *gknobs) string {
	if k.errCases && r.Chance(1, 3) {
		return simkit.Pick(r, []string{"> 5.0.0", "9.9.9", "< 0.1.0"})
	}
	return simkit.Pick(r, constrPool)
}

func pickLoc(r *simkit.RNG, p *Pkg) string {
	var locs []string
	for _, m := range p.Mods {
		if !contains(locs, m.SubPath) {
			locs = append(locs, m.SubPath)
		}
	}
	if len(locs) == 0 || r.Chance(1, 10) {
		return simkit.Pick(r, []string{"", "nowhere", "m1"})
	}
	return simkit.Pick(r, locs)
}

// localAddr spells a relative address from module location from to some
// location of the same package (or, rarely, out of it).
func localAddr(r *simkit.RNG, p *Pkg, from string, errCases bool) string {
	if errCases && r.Chance(1, 4) {
		return strings.Repeat("../", len(segs(from))+1) + "escape"
	}
	to := pickLoc(r, p)
	fs, ts := segs(from), segs(to)
	// common prefix
	c := 0
	for c < len(fs) && c < len(ts) && fs[c] == ts[c] {
		c++
	}
	up := len(fs) - c
	rest := ts[c:]
	switch {
	case up == 0 && len(rest) == 0:
		return "./"
	case up == 0:
		return "./" + strings.Join(rest, "/")
	case len(rest) == 0 && up == 1:
		return "../"
	case len(rest) == 0:
		return strings.Repeat("../", up-1) + ".."
	}
	return strings.Repeat("../", up) + strings.Join(rest, "/")
}

func genAdds(r *simkit.RNG, sc *Scenario, k *gknobs) {
	n := k.maxAdds
	for i := 0; i < n; i++ {
		f := "F1"
		if k.f2 && r.Chance(1, 4) {
			f = "F2"
		}
		if len(sc.Adds) > 0 && r.Chance(1, 6) {
			sc.Adds = append(sc.Adds, simkit.Pick(r, sc.Adds)) // the same call again
			continue
		}
		switch {
		case len(sc.Regs) > 0 && r.Chance(1, 3):
			rp := simkit.Pick(r, sc.Regs)
			a := rp.Addr
			if r.Chance(1, 3) {
				a += "//" + simkit.Pick(r, []string{"m1", "m2", "sub"})
			}
			if r.Chance(1, 3) {
				v := simkit.Pick(r, rp.Versions).V
				if k.errCases && r.Chance(1, 4) {
					v = "7.7.7"
				}
				pk, sub := splitSub(a)
				fa := pk + "@" + v
				if sub != "" {
					fa += "//" + sub
				}
				sc.Adds = append(sc.Adds, Add{Kind: "final", Addr: fa, Finder: f})
			} else {
				sc.Adds = append(sc.Adds, Add{Kind: "registry", Addr: a, Constr: pickConstr(r, k), Finder: f})
			}
		default:
			p := simkit.Pick(r, sc.Pkgs)
			sc.Adds = append(sc.Adds, Add{Kind: "remote", Addr: p.Source(pickLoc(r, &p)), Finder: f})
		}
	}
	if pr := simkit.NewRNG(sc.Seed, "bw/root-then-sub"); len(sc.Regs) > 0 && pr.Chance(1, 4) {
		// one registry package version asked for at its root through the constraint entry point
		// and at a sub-path through the final-address entry point, same finder
		rp := simkit.Pick(pr, sc.Regs)
		v := simkit.Pick(pr, rp.Versions).V
		sub := simkit.Pick(pr, []string{"m1", "m2", "m1/sub"})
		pair := []Add{{Kind: "registry", Addr: rp.Addr, Constr: v, Finder: "F1"}, {Kind: "final", Addr: rp.Addr + "@" + v + "//" + sub, Finder: "F1"}}
		if pr.Chance(1, 2) {
			pair[0], pair[1] = pair[1], pair[0]
		}
		sc.Adds = append(sc.Adds, pair...)
	}
}

func splitSub(a string) (string, string) {
	if i := strings.Index(a, "//"); i >= 0 {
		return a[:i], a[i+2:]
	}
	return a, ""
}

func addHostile(r *simkit.RNG, p *Pkg, i, np int, rootRun bool) {
	choices := []PFile{
		{Path: "h-rel-out", Kind: "link", Target: "../outside"},
		{Path: "h-abs-out", Kind: "link", Target: "/etc/shadow"},
		{Path: "h-abs-victim", Kind: "link", Target: "/w/victim"},
		{Path: "h-manifest", Kind: "link", Target: "../terraform-sources.json"},
		{Path: "h-dangling", Kind: "link", Target: "nothing-here"},
		{Path: "h-fifo", Kind: "fifo", Mode: 0o644},
		{Path: "h-sock", Kind: "sock", Mode: 0o644},
		{Path: "h-dev", Kind: "dev", Mode: 0o644},
		{Path: "h-self", Kind: "link", Target: "h-self"},
		{Path: "h-chain1", Kind: "link", Target: "h-chain2"},
		{Path: "h-chain2", Kind: "link", Target: "main.tf"},
		{Path: "h-up-down", Kind: "link", Target: "../" + "x/main.tf"},
		{Path: "h-dotdot-in", Kind: "link", Target: "m1/../main.tf"},
		{Path: "h-abs-tmp", Kind: "link", Target: "/tmp"},
		{Path: "h-abs-in-target", Kind: "link", Target: "/w/target"},
		{Path: "h-to-fifo", Kind: "link", Target: "h-fifo"},
		{Path: "ign/secret-link", Kind: "link", Target: "../main.tf"},
		{Path: "h-into-ign", Kind: "link", Target: "ign/keep.txt"},
		{Path: "h-tmpname", Kind: "link", Target: "../.tmp-guess/main.tf"},
		{Path: "h-sibling", Kind: "link", Target: "../SIBLING/main.tf"},
		{Path: "h-sibling-pkg", Kind: "link", Target: "../@SIBLINGPKG@/main.tf"},
		{Path: "h-sibling-pkg", Kind: "link", Target: "../@SIBLINGPKG@"},
		{Path: "h-up", Kind: "link", Target: ".."},
		{Path: "h-up-dot", Kind: "link", Target: "../."},
		{Path: "hd/h-upup", Kind: "link", Target: "../.."},
		{Path: "h-abs-root", Kind: "link", Target: "/"},
		{Path: "hd/h-leak", Kind: "link", Target: "h-top/../../victim"},
		{Path: ".terraformignore", Kind: "fifo", Mode: 0o644},
		{Path: ".terraformignore", Kind: "link", Target: "h-fifo"},
		// a rule file that is a link to a file outside the package, whose rules exclude the link
		{Path: ".terraformignore", Kind: "link", Target: "/w/outside-rules"},
		{Path: ".terraformignore", Kind: "link", Target: "../../outside-rules"},
		// links that name the very directory the fetcher was told to fill: inside the package
		// while it is being examined, dangling once the directory has its final name
		{Path: "h-tmp-rel", Kind: "link", Target: "../@TMPBASE@/main.tf"},
		{Path: "h-tmp-abs", Kind: "link", Target: "@TMPABS@/main.tf"},
		// the same, reached through a valid link to the package's own root, so that the text of
		// the target, read from the link's position, never seems to leave the package
		{Path: "hd/h-tmp-via", Kind: "link", Target: "h-top/../@TMPBASE@/main.tf"},
	}
	n := r.Range(1, 3)
	if r.Chance(1, 3) {
		n = 1
	}
	for j := 0; j < n; j++ {
		c := simkit.Pick(r, choices)
		if hasPath(p.Files, c.Path) {
			continue
		}
		if c.Path == ".terraformignore" && p.Rules != nil {
			continue
		}
		if c.Kind == "dev" && !rootRun {
			c = PFile{Path: "h-sock", Kind: "sock", Mode: 0o644}
			if hasPath(p.Files, c.Path) {
				continue
			}
		}
		if strings.HasPrefix(c.Path, "ign/") || c.Path == "h-into-ign" {
			if !hasPath(p.Files, "ign") {
				p.Files = append(p.Files, PFile{Path: "ign", Kind: "dir", Mode: 0o755})
				p.Files = append(p.Files, PFile{Path: "ign/keep.txt", Kind: "file", Body: "IGN;", Mode: 0o644})
			}
		}
		if strings.HasPrefix(c.Path, "hd/") && !hasPath(p.Files, "hd") {
			p.Files = append(p.Files, PFile{Path: "hd", Kind: "dir", Mode: 0o755})
		}
		if (c.Path == "hd/h-leak" || c.Path == "hd/h-tmp-via") && !hasPath(p.Files, "hd/h-top") {
			// a valid link to the package's own root, through which the other one climbs out
			p.Files = append(p.Files, PFile{Path: "hd/h-top", Kind: "link", Target: ".."})
		}
		if (c.Path == "h-to-fifo" || (c.Path == ".terraformignore" && c.Target == "h-fifo")) && !hasPath(p.Files, "h-fifo") {
			p.Files = append(p.Files, PFile{Path: "h-fifo", Kind: "fifo", Mode: 0o644})
		}
		if c.Path == "h-chain1" && !hasPath(p.Files, "h-chain2") {
			p.Files = append(p.Files, PFile{Path: "h-chain2", Kind: "link", Target: "main.tf"})
		}
		p.Files = append(p.Files, c)
	}
}

// genPkgRules draws a rule file for a package from the same grammar family as
// the Pack world, over the package's own segment names.
// padRules puts more than 64 KiB of comment lines in front of a rule file.
func padRules(s string) string {
	var b strings.Builder
	for i := 0; b.Len() < 66000; i++ {
		fmt.Fprintf(&b, "# padding line %06d ........................................\n", i)
	}
	return b.String() + s
}

func genPkgRules(r *simkit.RNG, p *Pkg) string {
	var names []string
	seen := map[string]bool{}
	for _, f := range p.Files {
		for _, s := range strings.Split(f.Path, "/") {
			// (a backslash in a pattern is outside the rule language the property names)
			if !seen[s] && !strings.Contains(s, "\\") {
				seen[s] = true
				names = append(names, s)
			}
		}
	}
	seg := func() string {
		switch r.Intn(8) {
		case 0:
			return "*"
		case 1:
			return "*.txt"
		case 2:
			return "*.tf"
		case 3:
			s := simkit.Pick(r, names)
			return s[:1] + "*"
		default:
			return simkit.Pick(r, names)
		}
	}
	var lines []string
	for i := r.Range(1, 5); i > 0; i-- {
		ns := 1 + r.Weighted([]int{5, 3})
		var ss []string
		for j := 0; j < ns; j++ {
			ss = append(ss, seg())
		}
		if r.Chance(1, 8) {
			ss = append([]string{"**"}, ss...)
		}
		pat := strings.Join(ss, "/")
		if r.Chance(1, 3) {
			pat = "/" + pat
		}
		if r.Chance(1, 3) {
			pat += "/"
		}
		if r.Chance(1, 4) {
			pat = "!" + pat
		}
		lines = append(lines, pat)
	}
	if r.Chance(1, 6) {
		lines = append(lines, "# a comment", "")
	}
	return strings.Join(lines, "\n") + "\n"
}

func genCorruptions(r *simkit.RNG, sc *Scenario) {
	n := r.Range(1, 4)
	for i := 0; i < n; i++ {
		switch r.Intn(4) {
		case 0:
			sc.Corrupt = append(sc.Corrupt, Corruption{Kind: "flip", Off: r.Intn(4000), Val: r.Intn(255) + 1})
		case 1:
			sc.Corrupt = append(sc.Corrupt, Corruption{Kind: "trunc", Off: r.Intn(2000)})
		default:
			f := simkit.Pick(r, []string{"local", "local", "local", "source", "version", "format", "dup", "regsource"})
			t := ""
			switch f {
			case "local":
				t = simkit.Pick(r, []string{"..", ".", "a/b", "a\\b", "", "/abs", "terraform-sources.json", "../x", "./x", "x/..", "x/", "/", "..\\..", "SIBLING"})
			case "source":
				t = simkit.Pick(r, []string{"git::https://example.com/x.git//sub", "https://user:pw@example.com/x.tgz", "garbage", "", "http://example.com/x.tgz", "./local", "git::https://example.com/x.git?ref=a&ref=b"})
			case "regsource":
				t = simkit.Pick(r, []string{"git::https://example.com/x.git//../up", "garbage", "", "./local", "https://example.com/x.tgz//a/../../b"})
			case "version":
				t = simkit.Pick(r, []string{"not-a-version", "", "1", "1.0.0.0", "v1.0.0", "1.0.0+build"})
			case "format":
				t = simkit.Pick(r, []string{"0", "2", "-1", "\"1\"", "1.5"})
			}
			sc.Corrupt = append(sc.Corrupt, Corruption{Kind: "field", Field: f, Text: t})
		}
	}
}

// genSmall decodes seed as an index into the family <=3 packages x <=2
// module locations x dependency edge subsets (remote edges between all
// (package, location) pairs plus one optional registry hop).
func genSmall(seed uint64) *Scenario {
	sc := &Scenario{World: "bw", Profile: "small", Seed: seed, Umask: 0o022}
	idx := seed
	np := int(idx%3) + 1
	idx /= 3
	nl := int(idx%2) + 1
	idx /= 2
	locs := []string{"", "m1"}[:nl]
	for i := 0; i < np; i++ {
		p := Pkg{Base: fmt.Sprintf("git::https://example.com/org/repo%d.git", i+1), Commit: fmt.Sprintf("%040d", i+1)}
		for _, l := range locs {
			if l != "" {
				p.Files = append(p.Files, PFile{Path: l, Kind: "dir", Mode: 0o755})
			}
			p.Files = append(p.Files, PFile{Path: join(l, "main.tf"), Kind: "file", Body: fmt.Sprintf("PK%d-%s;", i+1, l), Mode: 0o644})
			p.Mods = append(p.Mods, Mod{SubPath: l, Finder: "F1"})
		}
		sc.Pkgs = append(sc.Pkgs, p)
	}
	// registry hop present?
	hop := idx%2 == 1
	idx /= 2
	if hop {
		sc.Regs = []RegPkg{{Addr: "example.com/ns1/name1/sys", Versions: []RegVer{
			{V: "1.0.0", Source: sc.Pkgs[0].Source("")},
			{V: "1.1.0", Source: sc.Pkgs[np-1].Source(locs[nl-1])},
		}}}
	}
	// edges: node k = (pkg, loc); edge bits over ordered pairs, decoded from idx
	nodes := np * nl
	type node struct{ p, l int }
	var ns []node
	for p := 0; p < np; p++ {
		for l := 0; l < nl; l++ {
			ns = append(ns, node{p, l})
		}
	}
	for a := 0; a < nodes; a++ {
		for b := 0; b < nodes; b++ {
			bit := idx % 2
			idx /= 2
			if bit == 1 {
				from, to := ns[a], ns[b]
				m := &sc.Pkgs[from.p].Mods[from.l]
				if from.p == to.p && (a+b)%2 == 0 {
					m.Deps = append(m.Deps, Dep{Kind: "local", Addr: localAddrTo(locs[from.l], locs[to.l]), Finder: "F1"})
				} else {
					m.Deps = append(m.Deps, Dep{Kind: "remote", Addr: sc.Pkgs[to.p].Source(locs[to.l]), Finder: "F1"})
				}
			}
		}
	}
	if hop {
		m := &sc.Pkgs[np-1].Mods[0]
		m.Deps = append(m.Deps, Dep{Kind: "registry", Addr: "example.com/ns1/name1/sys", Constr: "", Finder: "F1"})
	}
	sc.Adds = []Add{{Kind: "remote", Addr: sc.Pkgs[0].Source(""), Finder: "F1"}}
	if idx%2 == 1 {
		sc.Adds = append(sc.Adds, sc.Adds[0])
	}
	va := Variant{Shape: "random", SchedSeed: seed}
	for i := range sc.Adds {
		va.Order = append(va.Order, i)
		va.Tasks = append(va.Tasks, 0)
	}
	sc.Variants = []Variant{va}
	return sc
}

func localAddrTo(from, to string) string {
	switch {
	case from == to:
		return "./"
	case from == "":
		return "./" + to
	default:
		return "../"
	}
}

func segs(p string) []string {
	var out []string
	for _, s := range strings.Split(p, "/") {
		if s != "" {
			out = append(out, s)
		}
	}
	return out
}

func prefixes(p string) []string {
	ss := segs(p)
	var out []string
	for i := 1; i <= len(ss); i++ {
		out = append(out, strings.Join(ss[:i], "/"))
	}
	return out
}

func join(d, s string) string {
	if d == "" {
		return s
	}
	return d + "/" + s
}

func contains(xs []string, x string) bool {
	for _, y := range xs {
		if x == y {
			return true
		}
	}
	return false
}

func hasPath(fs []PFile, p string) bool {
	for _, f := range fs {
		if f.Path == p {
			return true
		}
	}
	return false
}

// aliasSpelling gives one package (one run in ten) an address with a space in
// its last path segment and lets the references to it alternate between the
// two spellings of that space, escaped and literal: one package, whose address
// prints in the escaped form whichever way it was written.
func aliasSpelling(r *simkit.RNG, sc *Scenario) {
	if len(sc.Pkgs) == 0 || !r.Chance(1, 10) {
		return
	}
	p := &sc.Pkgs[r.Intn(len(sc.Pkgs))]
	k := strings.LastIndex(p.Base, "/")
	if k < 0 || strings.ContainsAny(p.Base, "% ") {
		return
	}
	old := p.Base
	p.Base, p.AltBase = old[:k+1]+"sp%20"+old[k+1:], old[:k+1]+"sp "+old[k+1:]
	n := 0
	respell := func(t string) string {
		if t != old && !strings.HasPrefix(t, old+"//") && !strings.HasPrefix(t, old+"?") {
			return t
		}
		n++
		if n%2 == 0 {
			return p.AltBase + t[len(old):]
		}
		return p.Base + t[len(old):]
	}
	for i := range sc.Adds {
		if sc.Adds[i].Kind == "remote" {
			sc.Adds[i].Addr = respell(sc.Adds[i].Addr)
		}
	}
	for i := range sc.Pkgs {
		for j := range sc.Pkgs[i].Mods {
			for d := range sc.Pkgs[i].Mods[j].Deps {
				if sc.Pkgs[i].Mods[j].Deps[d].Kind == "remote" {
					sc.Pkgs[i].Mods[j].Deps[d].Addr = respell(sc.Pkgs[i].Mods[j].Deps[d].Addr)
				}
			}
		}
	}
	for i := range sc.Regs {
		for j := range sc.Regs[i].Versions {
			sc.Regs[i].Versions[j].Source = respell(sc.Regs[i].Versions[j].Source)
		}
	}
}

func (sc *Scenario) regIndexOf(addr string) int {
	for i := range sc.Regs {
		if sc.Regs[i].Addr == addr {
			return i
		}
	}
	return -1
}

// madeAddresses lets every other reference to one package (one run in twelve) be an
// address that its user builds with MakeRemoteSource from a URL value carrying a field
// that printing ignores, instead of parsing the text: the same package.
func madeAddresses(r *simkit.RNG, sc *Scenario) {
	if len(sc.Pkgs) == 0 || !r.Chance(1, 12) {
		return
	}
	p := &sc.Pkgs[r.Intn(len(sc.Pkgs))]
	pre := "made-omithost::"
	if p.Query != "" {
		pre = simkit.Pick(r, []string{"made-forcequery::", "made-omithost::"})
	}
	n := 0
	mark := func(t string) string {
		s := t
		if p.Query != "" {
			if !strings.HasSuffix(s, "?"+p.Query) {
				return t
			}
			s = strings.TrimSuffix(s, "?"+p.Query)
		} else if strings.Contains(s, "?") {
			return t
		}
		names := false
		for _, base := range []string{p.Base, p.AltBase} {
			if base != "" && (s == base || strings.HasPrefix(s, base+"//")) {
				names = true
			}
		}
		if !names {
			return t
		}
		n++
		if n%2 == 0 {
			return pre + t
		}
		return t
	}
	for i := range sc.Adds {
		if sc.Adds[i].Kind == "remote" {
			sc.Adds[i].Addr = mark(sc.Adds[i].Addr)
		}
	}
	for i := range sc.Pkgs {
		for j := range sc.Pkgs[i].Mods {
			for d := range sc.Pkgs[i].Mods[j].Deps {
				if sc.Pkgs[i].Mods[j].Deps[d].Kind == "remote" {
					sc.Pkgs[i].Mods[j].Deps[d].Addr = mark(sc.Pkgs[i].Mods[j].Deps[d].Addr)
				}
			}
		}
	}
	for i := range sc.Regs {
		for j := range sc.Regs[i].Versions {
			sc.Regs[i].Versions[j].Source = mark(sc.Regs[i].Versions[j].Source)
		}
	}
}
