package bw

import (
	"encoding/json"
	"fmt"
	"strings"

	"verif/sim/simkit"
)

var hostileSeeds = []string{
	"", ".", "..", "./", "../", "./.", "./a/../..", "../../..", "/abs", "a/b", "a/b/c", "a/b/c/d", "a//b", "//", "///", "?", "??", "::", "git::", "::https://x",
	"git::https://example.com/x.git", "git::https://example.com/x.git//", "git::https://example.com/x.git//.", "git::https://example.com/x.git//..",
	"git::https://example.com/x.git//a/../..", "git::https://example.com/x.git?ref=", "git::https://example.com/x.git?ref=a&ref=b", "git::https://example.com/x.git?%zz",
	"https://example.com/x.tgz", "https://example.com/x.tgz//a//b", "https://example.com/x?archive=tar.gz", "https://example.com/x?archive=zip&archive=tgz",
	"https://user:pw@example.com/x.tgz", "https://[::1]/x.tgz", "https://[::1/x.tgz", "https://example.com:99999/x.tgz", "https://%41.com/x.tgz", "http://example.com/x.tgz",
	"HTTPS://EXAMPLE.COM/X.TGZ", "GIT::HTTPS://example.com/x.git", "https::https://example.com/x.tgz", "s3::https://example.com/x", "git::git://example.com/x.git",
	"github.com", "github.com/", "github.com/a", "github.com/a/b", "github.com/a/b/c//d", "github.com/a/b.git", "gitlab.com/a/b/c", "gitlab.com/a/b/c/d", "gitlab.com/a",
	"hashicorp/subnets/cidr", "hashicorp/subnets/cidr//", "hashicorp/subnets/cidr//a/..", "example.com/a/b/c", "example.com/a/b/c/d", "a/b/c@1.0.0", "a/b/c@", "@1.0.0", "a/b/c@1.0.0//", "a/b/c@1.0.0//x/../y",
	"a/b/c@v1", "a/b/c@1.0.0@2.0.0", "xn--/a/b/c", "\u30c6\u30e9.example.com/a/b/c", "exa mple.com/a/b/c", "a/b/c d", "-/-/-", "_/_/_", "A/B/C", "a.b/c/d/e", "127.0.0.1/a/b/c", "localhost/a/b/c", "example.com:443/a/b/c",
	"https://example.com/x.tgz?checksum=md5:00", "https://example.com/x.tgz#frag", "git::ssh://git@example.com/x.git", "git::ssh://example.com/x.git", "git::https://example.com/%2e%2e/x.git",
	"a/b/c@18446744073709551616.0.0", "a/b/c@1.99999999999999999999.0", "example.com/a/b/c@0.0.340282366920938463463374607431768211456", "a/b/c@1.0.0-99999999999999999999",
	"\u2135a.com/ns/name/aws", "a\u2136.example.com/a/b/c@1.0.0", strings.Repeat("a", 1025) + "\u00e9.com/ns/name/aws", "xn--a-zhc.com/a/b/c",
	"c:\\windows", ".\\a", "./a:b", "./a\\b", " ./a", "./a ", "\t", "\x00", "./\x00", "a/b/c\x00",
}

func mutateString(r *simkit.RNG, s string) string {
	rs := []rune(s)
	switch r.Intn(8) {
	case 0:
		if len(rs) > 0 {
			i := r.Intn(len(rs))
			rs = append(rs[:i], rs[i+1:]...)
		}
	case 1:
		i := r.Intn(len(rs) + 1)
		ins := []rune(simkit.Pick(r, []string{"/", "//", "..", ".", "?", "&", "=", "@", ":", "::", "%", "%2f", "%00", "#", " ", "\\", "\u00e9", "\U0001F600", "[", "]", "*", "+", "\u2135", "\u2138"}))
		rs = append(rs[:i], append(ins, rs[i:]...)...)
	case 2:
		return s + s
	case 3:
		return strings.ToUpper(s)
	case 4:
		if len(rs) > 1 {
			i := r.Intn(len(rs) - 1)
			rs[i], rs[i+1] = rs[i+1], rs[i]
		}
	case 5:
		return s + strings.Repeat("/a", r.Range(1, 40))
	case 6:
		return strings.Repeat("../", r.Range(1, 30)) + s
	case 7:
		if len(rs) > 0 {
			return string(rs[:r.Intn(len(rs))])
		}
	}
	return string(rs)
}

// GenHostile builds C19/C18 scenarios: synthetic hostile manifests, hostile
// address strings, and a small build whose finder receives hostile strings
// from a fetched file (peer-supplied) and hands them to every parser.
func GenHostile(seed uint64) *Scenario {
	r := simkit.NewRNG(seed, "bw/hostile")
	sc := &Scenario{World: "bw", Profile: "hostile", Seed: seed, Umask: 0o022}
	var strs []string
	for i := r.Range(4, 16); i > 0; i-- {
		s := simkit.Pick(r, hostileSeeds)
		for m := r.Intn(3); m > 0; m-- {
			s = mutateString(r, s)
		}
		strs = append(strs, strings.ToValidUTF8(s, "?"))
	}
	switch r.Intn(3) {
	case 0:
		sc.Strings = strs
	case 1:
		m := hostileManifest(r, strs)
		if kr := simkit.NewRNG(seed, "bw/manifest-kind"); kr.Chance(1, 25) {
			// not a regular file at all
			m = simkit.Pick(kr, []string{"@FIFO@", "@LINK-FIFO@", "@DIR@"})
		}
		sc.Manifest = &m
	default:
		// through a peer: one package, one analysis, hostile strings in its declarations
		p := Pkg{Base: "git::https://example.com/org/repo1.git", Commit: fmt.Sprintf("%040d", 1)}
		p.Files = []PFile{{Path: "main.tf", Kind: "file", Body: "PK1-;", Mode: 0o644}}
		mod := Mod{SubPath: "", Finder: "F1", Hostile: strs}
		for _, s := range strs[:len(strs)/2] {
			mod.Deps = append(mod.Deps, Dep{Kind: simkit.Pick(r, []string{"local", "remote", "registry"}), Addr: strings.NewReplacer("\n", " ", "\t", " ").Replace(s), Finder: "F1"})
		}
		p.Mods = []Mod{mod}
		sc.Pkgs = []Pkg{p}
		sc.Adds = []Add{{Kind: "remote", Addr: p.Source(""), Finder: "F1"}}
		sc.Variants = []Variant{{Order: []int{0}, Tasks: []int{0}, Shape: "random"}}
	}
	return sc
}

func hostileManifest(r *simkit.RNG, strs []string) string {
	pick := func(pool []string) string {
		if r.Chance(1, 3) {
			return simkit.Pick(r, strs)
		}
		return simkit.Pick(r, pool)
	}
	locals := []string{"pkgdir", "pkgdir", "pkgdir0", "pkg", "pkgdir-old", "PKGDIR", "Pkg", "..cache", "...", "..", ".", "a/b", "a\\b", "", "/abs", "terraform-sources.json", "../x", "x/..", "pkgdir/", "/", "..\\..", "pkgdir\x00", "ü", " ..", "..\n", " .", " ", "\t..", ".. ", " pkgdir"}
	sources := []string{"git::https://example.com/x.git", "https://example.com/x.tgz", "git::https://example.com/x.git//sub", "garbage", "", "./local", "https://user:pw@example.com/x.tgz", "git::https://example.com/x.git?ref=a"}
	regs := []string{"example.com/a/b/c", "a/b/c", "example.com/a/b/c//sub", "garbage", "", "a/b"}
	vers := []string{"1.0.0", "1.0.0", "1.0", "01.0.0", "1.0.0-beta", "not-a-version", "", "1", "v1.0.0", "1.0.0+b", "0.0.0", "18446744073709551616.0.0", "1.99999999999999999999.0"}
	doc := map[string]interface{}{"terraform_source_bundle": simkit.Pick(r, []interface{}{1, 1, 1, 1, 1, 1, 0, 2, "1", -1, 1.5, nil})}
	var pkgs []interface{}
	for i := r.Range(0, 3); i > 0; i-- {
		e := map[string]interface{}{"source": pick(sources), "local": pick(locals)}
		if r.Chance(1, 2) {
			// well-formed entries with distinct addresses, so that the manifest opens
			e["source"] = fmt.Sprintf("git::https://example.com/h%d.git", i)
			e["local"] = simkit.Pick(r, []string{"pkgdir", "pkgdir0", "pkg", "pkgdir-old", "..cache", "...", "PKGDIR", "Pkg"})
		}
		if r.Chance(1, 2) {
			e["meta"] = map[string]interface{}{"git_commit_id": pick([]string{"abc", ""}), "git_commit_message": "m"}
		}
		if r.Chance(1, 8) {
			e["local"] = simkit.Pick(r, []interface{}{nil, 3, []interface{}{"x"}, map[string]interface{}{}})
		}
		pkgs = append(pkgs, e)
	}
	if len(pkgs) > 0 && r.Chance(1, 4) {
		pkgs = append(pkgs, pkgs[0])
	}
	if pkgs != nil {
		doc["packages"] = pkgs
	}
	var regl []interface{}
	for i := r.Range(0, 2); i > 0; i-- {
		vs := map[string]interface{}{}
		for j := r.Range(0, 3); j > 0; j-- {
			v := map[string]interface{}{"source": pick(sources)}
			switch r.Intn(4) {
			case 0:
				v["deprecation"] = nil
			case 1:
				v["deprecation"] = map[string]interface{}{"Version": "1", "Reason": "r", "Link": "l"}
			case 2:
				v["deprecation"] = "bogus"
			}
			vs[pick(vers)] = v
		}
		regl = append(regl, map[string]interface{}{"source": pick(regs), "versions": vs})
	}
	if len(regl) > 0 && r.Chance(1, 2) {
		// the same registry package twice: verbatim, or once with its default host spelled out
		first := regl[0].(map[string]interface{})
		second := map[string]interface{}{"source": first["source"], "versions": map[string]interface{}{"1.0.0": map[string]interface{}{"source": "git::https://example.com/x.git"}}}
		if r.Chance(1, 2) {
			first["source"], second["source"] = "hashicorp/foo/aws", "registry.terraform.io/hashicorp/foo/aws"
		}
		regl = append(regl, second)
	}
	if regl != nil {
		doc["registry"] = regl
	}
	if simkit.NewRNG(uint64(len(strs))*7919+uint64(len(regl)), "bw/manifest-version-keys").Chance(1, 6) {
		// an otherwise well-formed manifest in which two version keys of one registry package are
		// spellings of the same version
		k2 := simkit.Pick(r, []string{"1.0", "01.0.0", "1", "1.0.0"})
		return `{"terraform_source_bundle":1,"packages":[{"source":"https://example.com/x.tgz","local":"pkgdir"},{"source":"git::https://example.com/x.git","local":"pkgdir0"}],` +
			`"registry":[{"source":"example.com/a/b/c","versions":{"1.0.0":{"source":"https://example.com/x.tgz"},"` + k2 + `":{"source":"git::https://example.com/x.git","deprecation":{"Version":"1.0.0","Reason":"r","Link":"l"}}}}]}`
	}
	b, _ := json.Marshal(doc)
	s := string(b)
	if r.Chance(1, 6) {
		s = s[:r.Intn(len(s)+1)]
	}
	if r.Chance(1, 10) {
		s = mutateString(r, s)
	}
	return s
}
