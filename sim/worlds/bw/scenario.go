// Package bw is the Bundle world: a real sourcebundle.Builder talking to a
// simulated package fetcher, registry client, dependency finders and tracer,
// with client tasks interleaved by the seeded scheduler through the builder
// mutex hook. Oracles (package bwrun) cover C08, C09, C10, C13, C14, C17, C18
// and the bundle parts of C03, C12 and C19.
package bw

// PFile is one node of a package's content tree as the fetcher delivers it.
type PFile struct {
	Path   string `json:"path"`
	Kind   string `json:"kind"` // file dir link fifo
	Body   string `json:"body,omitempty"`
	Target string `json:"target,omitempty"`
	Mode   int    `json:"mode,omitempty"`
}

// Dep is one declared dependency; it is written into the deps.<finder> file of
// its module location and read back by the finder stub through the fs.FS.
type Dep struct {
	Kind   string `json:"kind"`             // local remote registry
	Addr   string `json:"addr"`             // address text handed to sourceaddrs.Parse*
	Constr string `json:"constr,omitempty"` // registry: ruby-style constraint, "" = all
	Finder string `json:"finder"`           // finder for the dependency: F1 F2
}

// Diag is a diagnostic a finder stub emits at a module location.
type Diag struct {
	ID      string `json:"id"`
	Sev     string `json:"sev"`            // E W
	File    string `json:"file,omitempty"` // package-relative file name of the subject range ("" = none)
	CtxFile string `json:"ctx_file,omitempty"`
}

// Mod is a module location of a package analysed by one finder.
type Mod struct {
	SubPath string   `json:"sub_path"`
	Finder  string   `json:"finder"`
	Deps    []Dep    `json:"deps,omitempty"`
	Diags   []Diag   `json:"diags,omitempty"`
	Perm    uint64   `json:"perm,omitempty"`    // seed for permuting/duplicating the reported deps
	Twice   bool     `json:"twice,omitempty"`   // report the first dep twice
	Hostile []string `json:"hostile,omitempty"` // peer-supplied strings the finder hands to every public address parser (C19)
}

// Pkg is a remote package the simulated fetcher can deliver.
type Pkg struct {
	Base      string  `json:"base"`               // address without query, e.g. git::https://example.com/r1.git
	AltBase   string  `json:"alt_base,omitempty"` // another spelling of Base that names the same package and prints as Base
	Query     string  `json:"query,omitempty"`    // e.g. ref=main
	Files     []PFile `json:"files"`
	Rules     *string `json:"rules,omitempty"` // .terraformignore content
	Commit    string  `json:"commit,omitempty"`
	BlankMeta bool    `json:"blank_meta,omitempty"` // the fetcher returns a non-nil PackageMeta with all fields omitted
	RulesLink bool    `json:"rules_link,omitempty"` // .terraformignore is delivered as a link to the regular file rules.ign in the package
	Msg       string  `json:"msg,omitempty"`
	Mods      []Mod   `json:"mods"`
}

// Addr is the package address text.
func (p *Pkg) Addr() string {
	if p.Query != "" {
		return p.Base + "?" + p.Query
	}
	return p.Base
}

// Source is the address text of sub-path sub in the package.
func (p *Pkg) Source(sub string) string {
	s := p.Base
	if sub != "" {
		s += "//" + sub
	}
	if p.Query != "" {
		s += "?" + p.Query
	}
	return s
}

type RegVer struct {
	V         string `json:"v"`
	Source    string `json:"source"` // remote source address text (may carry a sub-path)
	DepReason string `json:"dep_reason,omitempty"`
	DepLink   string `json:"dep_link,omitempty"`
}

type RegPkg struct {
	Addr     string   `json:"addr"` // host/namespace/name/system
	Versions []RegVer `json:"versions"`
}

// Add is one Add*Source call of a client task.
type Add struct {
	Kind   string `json:"kind"` // remote registry final
	Addr   string `json:"addr"`
	Constr string `json:"constr,omitempty"`
	Finder string `json:"finder"`
	Task   int    `json:"task"`
}

// PeerFault is one injected peer fault: the n-th call (1-based) of site.
type PeerFault struct {
	Site string `json:"site"` // fetch versions source find
	N    int    `json:"n"`
	Kind string `json:"kind"` // fetch: err torn cancel stall ; versions: err empty ; source: err ; find: err-diag
}

// Variant is one execution of the same world and Add set (C13): a permutation
// of the Add calls, a task assignment and a schedule.
type Variant struct {
	Order     []int  `json:"order"`     // permutation of Adds indices
	Tasks     []int  `json:"tasks"`     // task of each Add (by position in Order)
	PermSalt  uint64 `json:"perm_salt"` // changes the order in which finders report deps
	SchedSeed uint64 `json:"sched_seed"`
	Shape     string `json:"shape,omitempty"`
	Tracer    string `json:"tracer,omitempty"` // "" = recording tracer in the context; "none" = no tracer; "nodiag" = tracer without a Diagnostics callback
}

type Scenario struct {
	World     string       `json:"world"`
	Profile   string       `json:"profile"`
	Seed      uint64       `json:"seed"`
	UID       int          `json:"uid"`
	Umask     int          `json:"umask"`
	Pkgs      []Pkg        `json:"pkgs"`
	Regs      []RegPkg     `json:"regs,omitempty"`
	Adds      []Add        `json:"adds"`
	Variants  []Variant    `json:"variants"`
	Faults    []PeerFault  `json:"faults,omitempty"`
	Post      []string     `json:"post,omitempty"` // reopen ship corrupt crash-probe
	PipeCap   int          `json:"pipe_cap,omitempty"`
	PipeBreak int          `json:"pipe_break,omitempty"` // ship: the pipe breaks after this many bytes (0: never)
	Corrupt   []Corruption `json:"corrupt,omitempty"`
	LinkRoots bool         `json:"link_roots,omitempty"` // post: the bundle is also re-opened, and the archive extracted, by way of a symlink to the directory
	TargetVia bool         `json:"target_via,omitempty"` // the builder's target directory is named by way of a symlinked path component (/w/tl -> .)
	OtherPack bool         `json:"other_pack,omitempty"` // a further task packs another tree with its own rule file (slug.Pack) while the build runs: both consume the same ignore-rule machinery
	CloseTask bool         `json:"close_task,omitempty"` // Close is issued by task 0 after its Adds instead of after all tasks
	Tapes     [][]int      `json:"tapes,omitempty"`      // pinned schedule tapes, one per scheduler in creation order (variants, then ship)
	HaveTape  bool         `json:"have_tape,omitempty"`
	Manifest  *string      `json:"manifest,omitempty"` // synthetic manifest to open (C18/C19), no build
	Strings   []string     `json:"strings,omitempty"`  // hostile address strings fed to the parsers through a finder (C19)
}

// Corruption is a stored-state fault applied to a copy of the finished
// bundle's manifest before re-opening it.
type Corruption struct {
	Kind  string `json:"kind"` // trunc flip field
	Off   int    `json:"off,omitempty"`
	Val   int    `json:"val,omitempty"`
	Field string `json:"field,omitempty"` // local source version format dup
	Text  string `json:"text,omitempty"`
}
