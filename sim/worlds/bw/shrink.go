package bw

import "encoding/json"

// Shrink proposes structurally simpler variants of a scenario.
func Shrink(raw json.RawMessage) []json.RawMessage {
	var sc Scenario
	if json.Unmarshal(raw, &sc) != nil {
		return nil
	}
	base, _ := json.Marshal(&sc)
	var out []json.RawMessage
	emit := func(f func(c *Scenario) bool) {
		var c Scenario
		json.Unmarshal(base, &c)
		if f(&c) {
			nb, _ := json.Marshal(&c)
			if string(nb) != string(base) {
				out = append(out, nb)
			}
		}
	}
	fixVariants := func(c *Scenario, removed int) {
		for vi := range c.Variants {
			v := &c.Variants[vi]
			var o, t []int
			for k, ai := range v.Order {
				if ai == removed {
					continue
				}
				if ai > removed {
					ai--
				}
				o = append(o, ai)
				t = append(t, v.Tasks[k])
			}
			v.Order, v.Tasks = o, t
		}
	}
	// fewer variants
	if len(sc.Variants) > 1 {
		for i := range sc.Variants {
			i := i
			emit(func(c *Scenario) bool {
				c.Variants = append(c.Variants[:i], c.Variants[i+1:]...)
				if c.HaveTape && i < len(c.Tapes) {
					c.Tapes = append(c.Tapes[:i], c.Tapes[i+1:]...)
				}
				return true
			})
		}
	}
	// fewer adds
	if len(sc.Adds) > 1 {
		for i := range sc.Adds {
			i := i
			emit(func(c *Scenario) bool {
				c.Adds = append(c.Adds[:i], c.Adds[i+1:]...)
				fixVariants(c, i)
				return true
			})
		}
	}
	// post ops, faults, corruptions
	if len(sc.Post) > 0 {
		for i := range sc.Post {
			i := i
			emit(func(c *Scenario) bool { c.Post = append(c.Post[:i], c.Post[i+1:]...); return true })
		}
	}
	for i := range sc.Faults {
		i := i
		emit(func(c *Scenario) bool { c.Faults = append(c.Faults[:i], c.Faults[i+1:]...); return true })
	}
	if len(sc.Corrupt) > 1 {
		for i := range sc.Corrupt {
			i := i
			emit(func(c *Scenario) bool { c.Corrupt = append(c.Corrupt[:i], c.Corrupt[i+1:]...); return true })
		}
	}
	// single task, no permutation
	for vi := range sc.Variants {
		vi := vi
		multi := false
		for _, t := range sc.Variants[vi].Tasks {
			if t != 0 {
				multi = true
			}
		}
		if multi {
			emit(func(c *Scenario) bool {
				for k := range c.Variants[vi].Tasks {
					c.Variants[vi].Tasks[k] = 0
				}
				return true
			})
		}
		if sc.Variants[vi].PermSalt != 0 {
			emit(func(c *Scenario) bool { c.Variants[vi].PermSalt = 0; return true })
		}
	}
	if sc.HaveTape {
		for ti := range sc.Tapes {
			ti := ti
			if len(sc.Tapes[ti]) == 0 {
				continue
			}
			emit(func(c *Scenario) bool { c.Tapes[ti] = c.Tapes[ti][:len(c.Tapes[ti])/2]; return true })
			emit(func(c *Scenario) bool {
				for k := range c.Tapes[ti] {
					c.Tapes[ti][k] = 0
				}
				return true
			})
		}
	}
	// fewer registry versions / packages
	for ri := range sc.Regs {
		ri := ri
		if len(sc.Regs[ri].Versions) > 1 {
			for vi := range sc.Regs[ri].Versions {
				vi := vi
				emit(func(c *Scenario) bool {
					c.Regs[ri].Versions = append(c.Regs[ri].Versions[:vi], c.Regs[ri].Versions[vi+1:]...)
					return true
				})
			}
		}
	}
	// drop dependencies, diagnostics, module analyses, files
	for pi := range sc.Pkgs {
		pi := pi
		for mi := range sc.Pkgs[pi].Mods {
			mi := mi
			m := sc.Pkgs[pi].Mods[mi]
			if len(m.Deps) > 0 {
				emit(func(c *Scenario) bool { c.Pkgs[pi].Mods[mi].Deps = nil; c.Pkgs[pi].Mods[mi].Twice = false; return true })
				if len(m.Deps) > 1 {
					for di := range m.Deps {
						di := di
						emit(func(c *Scenario) bool {
							d := c.Pkgs[pi].Mods[mi].Deps
							c.Pkgs[pi].Mods[mi].Deps = append(d[:di], d[di+1:]...)
							return true
						})
					}
				}
			}
			if len(m.Diags) > 0 {
				emit(func(c *Scenario) bool { c.Pkgs[pi].Mods[mi].Diags = nil; return true })
			}
			if m.Twice {
				emit(func(c *Scenario) bool { c.Pkgs[pi].Mods[mi].Twice = false; return true })
			}
		}
		if len(sc.Pkgs[pi].Mods) > 0 {
			emit(func(c *Scenario) bool { c.Pkgs[pi].Mods = nil; return true })
		}
		if sc.Pkgs[pi].Rules != nil {
			emit(func(c *Scenario) bool { c.Pkgs[pi].Rules = nil; return true })
		}
		for fi := len(sc.Pkgs[pi].Files) - 1; fi >= 0; fi-- {
			fi := fi
			if sc.Pkgs[pi].Files[fi].Kind == "dir" {
				continue
			}
			emit(func(c *Scenario) bool {
				f := c.Pkgs[pi].Files
				c.Pkgs[pi].Files = append(f[:fi], f[fi+1:]...)
				return true
			})
		}
		if sc.Pkgs[pi].RulesLink {
			emit(func(c *Scenario) bool { c.Pkgs[pi].RulesLink = false; return true })
		}
		if sc.Pkgs[pi].BlankMeta {
			emit(func(c *Scenario) bool { c.Pkgs[pi].BlankMeta = false; return true })
		}
		if sc.Pkgs[pi].Commit != "" {
			emit(func(c *Scenario) bool { c.Pkgs[pi].Commit = ""; c.Pkgs[pi].Msg = ""; return true })
		}
	}
	// drop whole packages not named by any add (references elsewhere make the run "unknown", which no longer fails the same way)
	if len(sc.Pkgs) > 1 {
		for pi := len(sc.Pkgs) - 1; pi >= 0; pi-- {
			pi := pi
			emit(func(c *Scenario) bool { c.Pkgs = append(c.Pkgs[:pi], c.Pkgs[pi+1:]...); return true })
		}
	}
	if len(sc.Regs) > 0 {
		for ri := len(sc.Regs) - 1; ri >= 0; ri-- {
			ri := ri
			emit(func(c *Scenario) bool { c.Regs = append(c.Regs[:ri], c.Regs[ri+1:]...); return true })
		}
	}
	if sc.PipeBreak != 0 {
		emit(func(c *Scenario) bool { c.PipeBreak = 0; return true })
	}
	if sc.LinkRoots {
		emit(func(c *Scenario) bool { c.LinkRoots = false; return true })
	}
	for vi := range sc.Variants {
		vi := vi
		if sc.Variants[vi].Tracer != "" {
			emit(func(c *Scenario) bool { c.Variants[vi].Tracer = ""; return true })
		}
	}
	if sc.OtherPack {
		emit(func(c *Scenario) bool { c.OtherPack = false; return true })
	}
	if sc.CloseTask {
		emit(func(c *Scenario) bool { c.CloseTask = false; return true })
	}
	if sc.UID != 0 {
		emit(func(c *Scenario) bool { c.UID = 0; return true })
	}
	if sc.Umask != 0o022 {
		emit(func(c *Scenario) bool { c.Umask = 0o022; return true })
	}
	return out
}
