package bwrun

import (
	"bytes"
	"context"
	"fmt"
	"os"
	"path/filepath"
	"sort"
	"strings"
	"syscall"
	"time"

	"github.com/apparentlymart/go-versions/versions"
	regaddr "github.com/hashicorp/terraform-registry-address"

	slug "github.com/hashicorp/go-slug"
	"github.com/hashicorp/go-slug/sourceaddrs"
	"github.com/hashicorp/go-slug/sourcebundle"

	"verif/sim/simkit"
	"verif/sim/worlds/bw"
)

// AddRec records one Add*Source call as a history operation.
type AddRec struct {
	Idx      int // index into sc.Adds
	Task     int
	Invoke   int // global event sequence numbers
	Return   int
	HasErr   bool
	Refused  bool // the library's form of refusal: panic on a closed/poisoned builder
	Panic    string
	Diags    []string
	RanFault bool // a faulted peer call ran on this task during this call
	Calls    int  // peer calls made during this call
	FirstAcq int  // event sequence number of the call's first acquisition of the builder mutex (0: none)
	LastUnl  int  // ... and of its last release
}

type vresult struct {
	r                        *vrun
	adds                     []AddRec
	bundle                   *sourcebundle.Bundle
	closeErr                 error
	closePanic               string
	closeInvoke, closeReturn int
	closeRan                 bool
	closedInTask             bool // Close ran inside a client task while other tasks' calls could still be in flight
	deadlock                 bool
	anyErr                   bool
	manifest                 []byte
	checksum                 string
	listing                  []string
	lookups                  []string
	tape                     []int
}

func installHooks() {
	sourcebundle.SimMutexHook = &sourcebundle.SimMutexHooks{
		BeforeLock: func(m interface{}) {
			if r := cur; r != nil && r.sched != nil && r.inTasks {
				r.sched.BeforeLock(m)
				if id := r.sched.Cur().ID; r.lockFirst[id] == 0 {
					r.lockFirst[id] = r.log.Steps
				}
			}
		},
		AfterUnlock: func(m interface{}) {
			if r := cur; r != nil && r.sched != nil && r.inTasks {
				r.lockLast[r.sched.Cur().ID] = r.log.Steps + 1
				r.sched.AfterUnlock(m)
			}
		},
	}
}

func buildArena(sc *bw.Scenario) error {
	for _, d := range []string{"/w", "/tmp", "/cwd", "/w/SIBLING", "/etc", "/scratch"} {
		if err := os.MkdirAll(d, 0o755); err != nil {
			return err
		}
	}
	os.WriteFile("/w/victim", []byte("OUT-victim"), 0o644)
	os.WriteFile("/w/outside-rules", []byte(".terraformignore\nh-*\n"), 0o644)
	os.WriteFile("/w/SIBLING/main.tf", []byte("OUT-sibling"), 0o644)
	os.WriteFile("/etc/shadow", []byte("OUT-shadow"), 0o644)
	os.WriteFile("/cwd/keep", []byte("OUT-cwd"), 0o644)
	os.WriteFile("/tmp/keep", []byte("OUT-tmp"), 0o644)
	os.MkdirAll("/scratch/otherpack", 0o755)
	os.WriteFile("/scratch/otherpack/.terraformignore", []byte("zz*\n!zzkeep\n.terraformignore\n"), 0o644)
	for _, n := range []string{"other0.txt", "zzdrop", "zzkeep", "zzz"} {
		os.WriteFile("/scratch/otherpack/"+n, bytes.Repeat([]byte(n), 700), 0o644)
	}
	// pinned times: they reach the archive headers and so the sizes of simulated writes
	stamp := time.Unix(1400000000, 0)
	for _, n := range []string{"other0.txt", "zzdrop", "zzkeep", "zzz", ".terraformignore", ""} {
		os.Chtimes("/scratch/otherpack/"+n, stamp, stamp)
	}
	return os.Chdir("/cwd")
}

// Run executes one Bundle-world scenario (one OS process per scenario).
func Run(sc *bw.Scenario) *simkit.Outcome {
	out := &simkit.Outcome{World: "bw", Profile: sc.Profile, Seed: sc.Seed}
	out.ScenHash = simkit.HashJSON(sc)
	simkit.ResetCanon()
	log := simkit.NewLog()
	if os.Getuid() != sc.UID {
		out.Harness = fmt.Sprintf("scenario wants uid %d, worker runs as %d", sc.UID, os.Getuid())
		return out
	}
	simkit.WipeArena()
	syscall.Umask(0o022)
	if err := buildArena(sc); err != nil {
		out.Harness = "arena: " + err.Error()
		return out
	}
	syscall.Umask(sc.Umask)
	installHooks()

	if sc.Manifest != nil || len(sc.Strings) > 0 {
		runSynthetic(sc, log, out)
		out.TraceHash, out.Steps, out.Events = log.Hash(), log.Steps, log.Events
		out.Nontrivial = true
		return out
	}

	w := newWorld(sc)
	// canonical spelling of every world address is a generation precondition
	var pkgAddr []sourceaddrs.RemotePackage
	for pi := range sc.Pkgs {
		a, err := sourceaddrs.ParseRemotePackage(sc.Pkgs[pi].Addr())
		if err != nil || a.String() != sc.Pkgs[pi].Addr() {
			out.Skipped = fmt.Sprintf("package address %q is not canonical (%v)", sc.Pkgs[pi].Addr(), err)
			return out
		}
		pkgAddr = append(pkgAddr, a)
	}
	var regAddrs []regaddr.ModulePackage
	for ri := range sc.Regs {
		a, err := sourceaddrs.ParseRegistryPackage(sc.Regs[ri].Addr)
		if err != nil || a.String() != sc.Regs[ri].Addr {
			out.Skipped = fmt.Sprintf("registry address %q is not canonical (%v)", sc.Regs[ri].Addr, err)
			return out
		}
		regAddrs = append(regAddrs, a)
	}
	cl := w.closure(sc.Adds)
	states := map[string]bool{}
	book := &simkit.TapeBook{Tapes: sc.Tapes, Have: sc.HaveTape}

	var results []*vresult
	for vi := range sc.Variants {
		excl := []string{"/scratch"}
		for k := range sc.Variants {
			excl = append(excl, fmt.Sprintf("/w/target%d", k))
		}
		target := fmt.Sprintf("/w/target%d", vi)
		for k := range sc.Variants {
			os.MkdirAll(fmt.Sprintf("/w/target%d", k), 0o755)
		}
		if sc.TargetVia {
			if _, err := os.Lstat("/w/tl"); err != nil {
				os.Symlink(".", "/w/tl")
			}
			target = fmt.Sprintf("/w/tl/target%d", vi)
		}
		before := simkit.Snapshot(excl...)
		vr := runVariant(sc, book, vi, w, pkgAddr, regAddrs, target, log, out, states)
		after := simkit.Snapshot(excl...)
		results = append(results, vr)
		// C10 (last clause): nothing outside the target directory is touched, whatever happened
		for _, d := range simkit.DiffSnap(before, after) {
			cls := "outside"
			if strings.Contains(d, "/cwd/") || strings.Contains(d, " /cwd") {
				cls = "cwd"
			} else if strings.Contains(d, "/tmp") {
				cls = "tmp"
			}
			out.Violate("C10", "outside-target-changed", cls, fmt.Sprintf("variant %d: %s", vi, simkit.CanonString(d)))
		}
		checkVariant(sc, w, cl, vr, out)
	}
	checkAcrossVariants(sc, w, cl, results, out)
	if len(results) > 0 {
		runPostOps(sc, book, w, cl, results[0], log, out)
	}
	for s := range states {
		out.States = append(out.States, s)
	}
	sort.Strings(out.States)
	if len(sc.Pkgs) >= 2 || len(sc.Regs) > 0 || len(sc.Faults) > 0 || len(sc.Variants) > 1 {
		out.Nontrivial = true
	}
	for _, va := range sc.Variants {
		for _, t := range va.Tasks {
			if t > 0 {
				out.Nontrivial = true
			}
		}
	}
	out.Tapes = book.Collect()
	out.TraceHash = log.Hash()
	out.Steps = log.Steps
	out.Events = log.Events
	return out
}

func runVariant(sc *bw.Scenario, book *simkit.TapeBook, vi int, w *world, pkgAddr []sourceaddrs.RemotePackage, regAddrs []regaddr.ModulePackage, target string, log *simkit.Log, out *simkit.Outcome, states map[string]bool) *vresult {
	va := &sc.Variants[vi]
	r := &vrun{sc: sc, va: va, vi: vi, w: w, log: log, out: out, target: target, siteN: map[string]int{}, cancels: map[int]context.CancelFunc{},
		pkgAddr: pkgAddr, regAddr: regAddrs, diagsSeen: map[string][]string{}, tmpDirs: map[string]bool{}, faultsFired: map[string]int{}, lockFirst: map[int]int{}, lockLast: map[int]int{}}
	for _, p := range sc.Post {
		if p == "crash-probe" {
			r.probe = true
		}
	}
	cur = r
	res := &vresult{r: r}
	log.Add(-1, "variant", fmt.Sprintf("#%d order=%v tasks=%v salt=%d", vi, va.Order, va.Tasks, va.PermSalt))
	b, err := sourcebundle.NewBuilder(target, fetcher{r}, registry{r})
	if err != nil {
		out.Harness = "NewBuilder: " + err.Error()
		return res
	}
	r.sched = book.NewSched(log, va.SchedSeed, "bw/sched", va.Shape)
	ntasks := 1
	for _, t := range va.Tasks {
		if t+1 > ntasks {
			ntasks = t + 1
		}
	}
	res.adds = make([]AddRec, 0, len(va.Order))
	remaining := make([]int, ntasks)
	for pos := range va.Order {
		remaining[va.Tasks[pos]]++
	}
	closer := 0
	if len(va.Tasks) > 0 {
		closer = va.Tasks[len(va.Tasks)-1]
	}
	tracer := r.tracer()
	doClose := func() {
		res.closeRan = true
		res.closeInvoke = log.Steps + 1
		log.Add(r.task(), "op-start", "close")
		func() {
			defer func() {
				if x := recover(); x != nil {
					res.closePanic = fmt.Sprint(x)
				}
			}()
			res.bundle, res.closeErr = b.Close()
		}()
		log.Add(r.task(), "op-end", fmt.Sprintf("close err=%v panic=%s", res.closeErr != nil, res.closePanic))
		res.closeReturn = log.Steps
	}
	for t := 0; t < ntasks; t++ {
		t := t
		r.sched.Go(fmt.Sprintf("client%d", t), func(tk *simkit.Task) {
			base := context.Background()
			if va.Tracer != "none" {
				base = tracer.OnContext(base)
			}
			ctx, cancel := context.WithCancel(base)
			r.cancels[tk.ID] = cancel
			defer cancel()
			for pos, ai := range va.Order {
				if va.Tasks[pos] != t {
					continue
				}
				a := sc.Adds[ai]
				rec := AddRec{Idx: ai, Task: tk.ID}
				tk.Yield("before-add")
				remaining[t]--
				rec.Invoke = log.Steps + 1
				log.Add(tk.ID, "op-start", fmt.Sprintf("add %s %s", a.Kind, a.Addr))
				callsBefore := len(r.calls)
				r.lockFirst[tk.ID], r.lockLast[tk.ID] = 0, 0
				func() {
					defer func() {
						if x := recover(); x != nil {
							if _, ok := x.(stepCapPanic); ok {
								rec.Panic = "step-cap"
								return
							}
							rec.Refused = true
							rec.Panic = fmt.Sprint(x)
						}
					}()
					var diags sourcebundle.Diagnostics
					fd := finderByName(a.Finder)
					switch a.Kind {
					case "remote":
						addr, err := parseRemoteMaybeMade(a.Addr)
						if err != nil {
							rec.Panic = "harness: unparsable add address: " + err.Error()
							return
						}
						diags = b.AddRemoteSource(ctx, addr, fd)
					case "registry":
						addr, err := sourceaddrs.ParseRegistrySource(a.Addr)
						set, err2 := parseConstr(a.Constr)
						if err != nil || err2 != nil {
							rec.Panic = fmt.Sprintf("harness: unparsable add: %v %v", err, err2)
							return
						}
						diags = b.AddRegistrySource(ctx, addr, set, fd)
					case "final":
						addr, err := sourceaddrs.ParseFinalRegistrySource(a.Addr)
						if err != nil {
							rec.Panic = "harness: unparsable add address: " + err.Error()
							return
						}
						diags = b.AddFinalRegistrySource(ctx, addr, fd)
					}
					rec.HasErr = diags.HasErrors()
					for _, d := range diags {
						rec.Diags = append(rec.Diags, diagSig(d))
						id := strings.TrimPrefix(d.Description().Summary, "sim ")
						r.diagsSeen[id] = append(r.diagsSeen[id], fmt.Sprintf("add:%d|%s", len(res.adds), diagSig(d)))
					}
				}()
				for _, c := range r.calls[callsBefore:] {
					if c.Task == tk.ID {
						rec.Calls++
						if c.Fault != "" && c.Fault != "stall" && c.Fault != "cancel-after" {
							rec.RanFault = true
						}
					}
				}
				log.Add(tk.ID, "op-end", fmt.Sprintf("add err=%v refused=%v", rec.HasErr, rec.Refused))
				rec.Return = log.Steps
				rec.FirstAcq, rec.LastUnl = r.lockFirst[tk.ID], r.lockLast[tk.ID]
				res.adds = append(res.adds, rec)
				if rec.HasErr {
					res.anyErr = true
				}
				states[simkit.HashString(r.abstractState())] = true
			}
			remaining[t] = 0
			if sc.CloseTask && t == closer {
				// Close is called while other callers' last Add calls may still be in flight,
				// but after every Add call has been invoked
				tk.Block("wait-all-invoked", func() bool {
					for _, n := range remaining {
						if n > 0 {
							return true
						}
					}
					return false
				})
				doClose()
				res.closedInTask = ntasks > 1
			}
		})
	}
	var otherNames []string
	var otherErr error
	if sc.OtherPack {
		r.sched.Go("other-pack", func(tk *simkit.Task) {
			w := simkit.NewSimWriter("other-pack", simkit.WriterPlan{}, log, r.sched)
			var meta *slug.Meta
			func() {
				defer func() {
					if x := recover(); x != nil {
						otherErr = fmt.Errorf("panic: %v", x)
					}
				}()
				meta, otherErr = slug.Pack("/scratch/otherpack", w, false)
			}()
			if meta != nil {
				otherNames = meta.Files
			}
		})
	}
	r.inTasks = true
	if err := r.sched.Run(); err != nil {
		res.deadlock = true
		out.Violate("C14", "build-does-not-terminate", "scheduler", fmt.Sprintf("variant %d: %v (steps %d)", vi, err, log.Steps))
	}
	r.inTasks = false
	res.tape = r.sched.Recorded
	out.Decisions += r.sched.Decisions
	out.Inter = r.sched.InterleavingHash()
	for k, v := range r.faultsFired {
		out.Fault("peer/"+k, v)
	}
	if r.capHit {
		res.deadlock = true
		out.Violate("C14", "build-does-not-terminate", "step-cap", fmt.Sprintf("variant %d: more than %d simulator steps (peer calls, trace events, lock hand-overs) without the Add calls returning", vi, buildStepCap))
		out.Violate("C19", "build-does-not-terminate", "step-cap", fmt.Sprintf("variant %d: more than %d simulator steps without the Add calls returning", vi, buildStepCap))
	}
	if sc.OtherPack && !res.deadlock {
		// the concurrent Pack of another tree must come out as if it had run alone
		want := "other0.txt,zzkeep,"
		got := strings.Join(otherNames, ",") + ","
		if otherErr != nil || got != want {
			out.Violate("C03", "concurrent-consumer-influenced", "pack-beside-build", fmt.Sprintf("variant %d: a Pack of another tree (rules 'zz*','!zzkeep','.terraformignore') running beside the build shipped %q (err %v), alone it ships %q", vi, got, otherErr, want))
			out.Violate("C16", "concurrent-consumer-influenced", "pack-beside-build", fmt.Sprintf("variant %d: a Pack of another tree running beside the build shipped %q (err %v), alone it ships %q", vi, got, otherErr, want))
		} else {
			out.Probe("pack-beside-build-unaffected")
		}
	}
	if res.deadlock {
		return res
	}
	if !res.closeRan {
		doClose()
	}
	if res.bundle != nil {
		res.manifest, _ = os.ReadFile(filepath.Join(target, "terraform-sources.json"))
		res.checksum, _ = res.bundle.ChecksumV1()
		ents, _ := os.ReadDir(target)
		for _, e := range ents {
			res.listing = append(res.listing, e.Name())
		}
		sort.Strings(res.listing)
	}
	return res
}

// abstractState is what the peers' call log reveals of the builder's progress.
func (r *vrun) abstractState() string {
	var f, a, g []string
	for _, c := range r.calls {
		switch c.Site {
		case "fetch":
			f = append(f, c.Key)
		case "find":
			a = append(a, c.Key)
		default:
			g = append(g, c.Site+":"+c.Key)
		}
	}
	sort.Strings(f)
	sort.Strings(a)
	sort.Strings(g)
	return strings.Join(f, ",") + "|" + strings.Join(a, ",") + "|" + strings.Join(g, ",")
}

func parseVersion(s string) versions.Version {
	v, _ := versions.ParseVersion(s)
	return v
}
