// Package bwrun executes Bundle-world scenarios against the real
// sourcebundle.Builder / Bundle code.
package bwrun

import (
	"fmt"
	"path"
	"sort"
	"strings"

	"github.com/apparentlymart/go-versions/versions"

	"verif/sim/model"
	"verif/sim/worlds/bw"
)

// ---- reference closure, computed from the world tables only ----

type mPair struct {
	Pkg    int
	Sub    string
	Finder string
}

func (p mPair) String() string { return fmt.Sprintf("pkg%d//%s@%s", p.Pkg, p.Sub, p.Finder) }

type regSel struct {
	Reg     int
	Version string // as written in the world
}

type closure struct {
	pairs     []mPair
	pairSet   map[mPair]bool
	fetched   map[int]bool
	regAsked  map[int]bool
	sels      map[regSel]bool
	errs      []string // reasons the model expects an error diagnostic
	declared  int      // dependencies declared by analysed pairs (for the step bound)
	addTarget []*mPair // resolved target per Add (nil when the model expects an error)
	addSel    []*regSel
	treeErr   bool // a fetched tree must be refused (C10)
	unknown   bool // something referred to a package outside the world: nothing else is predicted
}

type world struct {
	treeUnknown []bool     // a link leads to or through a directory that the rules may remove: validity not predicted
	badTree     [][]string // per package: reasons a correct builder must refuse the fetched tree (after rule filtering)
	sc          *bw.Scenario
	files       []map[string]bw.PFile // per package: filtered content incl. deps files and rule file (files and links only strict)
	raw         []map[string]bw.PFile // unfiltered
	rules       [][]model.IgRule
	content     []string // canonical content signature of the filtered regular files (for coalescing)
}

func depsFileName(f string) string { return "deps." + f }

// depsFileBody renders the declarations of a module location; the finder stub
// parses it back through the fs.FS it is given.
func depsFileBody(m *bw.Mod) string {
	var b strings.Builder
	for _, d := range m.Deps {
		fmt.Fprintf(&b, "dep\t%s\t%s\t%s\t%s\n", d.Kind, d.Addr, d.Constr, d.Finder)
	}
	for _, d := range m.Diags {
		fmt.Fprintf(&b, "diag\t%s\t%s\t%s\t%s\n", d.Sev, d.ID, d.File, d.CtxFile)
	}
	if m.Twice {
		b.WriteString("twice\n")
	}
	for _, h := range m.Hostile {
		h = strings.NewReplacer("\n", " ", "\t", " ").Replace(h)
		for _, k := range []string{"source", "final", "local", "remote", "remotepkg", "registry", "registrypkg", "finalregistry"} {
			fmt.Fprintf(&b, "parse\t%s\t%s\n", k, h)
		}
	}
	return b.String()
}

func joinSub(d, s string) string {
	if d == "" {
		return s
	}
	return d + "/" + s
}

func newWorld(sc *bw.Scenario) *world {
	w := &world{sc: sc}
	for pi := range sc.Pkgs {
		p := &sc.Pkgs[pi]
		raw := map[string]bw.PFile{}
		for _, f := range p.Files {
			raw[f.Path] = f
		}
		for mi := range p.Mods {
			m := &p.Mods[mi]
			pa := joinSub(m.SubPath, depsFileName(m.Finder))
			raw[pa] = bw.PFile{Path: pa, Kind: "file", Body: depsFileBody(m), Mode: 0o644}
		}
		rt := ""
		if p.Rules != nil {
			rt = *p.Rules
			raw[".terraformignore"] = bw.PFile{Path: ".terraformignore", Kind: "file", Body: rt, Mode: 0o644}
			if p.RulesLink {
				raw[".terraformignore"] = bw.PFile{Path: ".terraformignore", Kind: "link", Target: "rules.ign"}
				raw["rules.ign"] = bw.PFile{Path: "rules.ign", Kind: "file", Body: rt, Mode: 0o644}
			}
		}
		rules := model.ParseIgnore(rt)
		fl := map[string]bw.PFile{}
		for pa, f := range raw {
			if f.Kind == "dir" {
				fl[pa] = f
				continue
			}
			if !model.Excluded(rules, pa) {
				fl[pa] = f
			}
		}
		w.raw = append(w.raw, raw)
		w.files = append(w.files, fl)
		w.rules = append(w.rules, rules)
		var keys []string
		for pa, f := range fl {
			if f.Kind == "file" {
				keys = append(keys, pa+"\x00"+f.Body)
			}
			if f.Kind == "link" && !strings.HasPrefix(f.Target, "/") {
				// a link to a directory of the package is a path of its own (a link to a file reads
				// as that file's content, which the statement's "same contents" does not separate)
				d := ""
				if i := strings.LastIndex(pa, "/"); i >= 0 {
					d = pa[:i]
				}
				if t, ok := fl[path.Clean(path.Join(d, f.Target))]; ok && t.Kind == "dir" {
					keys = append(keys, pa+"\x00symlink-to-directory:"+f.Target)
				}
			}
		}
		sort.Strings(keys)
		w.content = append(w.content, strings.Join(keys, "\x01"))
		bad, unk := badEntries(fl, rules)
		w.badTree = append(w.badTree, bad)
		w.treeUnknown = append(w.treeUnknown, unk)
	}
	return w
}

// badEntries lists what remains in a (filtered) package tree that a finished
// bundle may not contain: special files, and links that do not resolve to a
// regular file or directory inside the package.
func badEntries(fl map[string]bw.PFile, rules []model.IgRule) ([]string, bool) {
	var bad []string
	unknown := false
	touchedDir := func(p string) bool {
		for {
			if model.Touches(rules, p) {
				return true
			}
			i := strings.LastIndex(p, "/")
			if i < 0 {
				return false
			}
			p = p[:i]
		}
	}
	var paths []string
	for p := range fl {
		paths = append(paths, p)
	}
	sort.Strings(paths)
	var resolve func(dir []string, target string, hops int) (string, bool)
	resolve = func(dir []string, target string, hops int) (string, bool) {
		if hops > 20 || strings.HasPrefix(target, "/") {
			return "", false
		}
		st := append([]string{}, dir...)
		todo := strings.Split(target, "/")
		for len(todo) > 0 {
			s := todo[0]
			todo = todo[1:]
			switch s {
			case "", ".":
				continue
			case "..":
				if len(st) == 0 {
					return "", false
				}
				st = st[:len(st)-1]
				continue
			}
			p := strings.Join(append(append([]string{}, st...), s), "/")
			f, ok := fl[p]
			if !ok {
				return "", false
			}
			if f.Kind == "link" {
				r, ok := resolve(st, f.Target, hops+1)
				if !ok {
					return "", false
				}
				if r == "" {
					st = nil
				} else {
					st = strings.Split(r, "/")
				}
				continue
			}
			if f.Kind != "dir" && len(todo) > 0 {
				return "", false
			}
			if f.Kind == "dir" && touchedDir(p) {
				unknown = true
			}
			st = append(st, s)
		}
		return strings.Join(st, "/"), true
	}
	for _, p := range paths {
		f := fl[p]
		switch f.Kind {
		case "fifo", "sock", "dev":
			bad = append(bad, "special file "+p)
		case "link":
			var dir []string
			if i := strings.LastIndex(p, "/"); i >= 0 {
				dir = strings.Split(p[:i], "/")
			}
			r, ok := resolve(dir, f.Target, 0)
			if !ok {
				bad = append(bad, fmt.Sprintf("link %s -> %s does not resolve inside the package", p, f.Target))
				continue
			}
			if r != "" {
				if t, ok := fl[r]; !ok || (t.Kind != "file" && t.Kind != "dir") {
					bad = append(bad, fmt.Sprintf("link %s -> %s resolves to a non-file", p, f.Target))
				}
			}
		}
	}
	return bad, unknown
}

// splitSource inverts Pkg.Source: which package and sub-path does this
// remote source text name?
func (w *world) splitSource(t string) (int, string, bool) {
	for _, pre := range madePrefixes {
		t = strings.TrimPrefix(t, pre)
	}
	for pi := range w.sc.Pkgs {
		p := &w.sc.Pkgs[pi]
		s := t
		if p.Query != "" {
			if !strings.HasSuffix(s, "?"+p.Query) {
				continue
			}
			s = strings.TrimSuffix(s, "?"+p.Query)
		} else if strings.Contains(s, "?") {
			continue
		}
		for _, base := range []string{p.Base, p.AltBase} {
			if base == "" {
				continue
			}
			if s == base {
				return pi, "", true
			}
			if strings.HasPrefix(s, base+"//") {
				return pi, s[len(base)+2:], true
			}
		}
	}
	return 0, "", false
}

// printed is the form in which the library prints the remote source text t:
// the other spelling of a package address gives way to the one that prints.
func (w *world) printed(t string) string {
	for _, pre := range madePrefixes {
		t = strings.TrimPrefix(t, pre)
	}
	for pi := range w.sc.Pkgs {
		if a := w.sc.Pkgs[pi].AltBase; a != "" && (t == a || strings.HasPrefix(t, a+"//") || strings.HasPrefix(t, a+"?")) {
			return w.sc.Pkgs[pi].Base + t[len(a):]
		}
	}
	return t
}

func (w *world) regIndex(addr string) int {
	for i := range w.sc.Regs {
		if w.sc.Regs[i].Addr == addr {
			return i
		}
	}
	return -1
}

// resolveLocal applies a relative address to a sub-path, segment by segment.
func resolveLocal(sub, rel string) (string, bool) {
	st := []string{}
	for _, s := range strings.Split(sub, "/") {
		if s != "" {
			st = append(st, s)
		}
	}
	for _, s := range strings.Split(rel, "/") {
		switch s {
		case "", ".":
		case "..":
			if len(st) == 0 {
				return "", false
			}
			st = st[:len(st)-1]
		default:
			st = append(st, s)
		}
	}
	return strings.Join(st, "/"), true
}

func parseConstr(c string) (versions.Set, error) {
	if strings.TrimSpace(c) == "" {
		return versions.All, nil
	}
	return versions.MeetingConstraintsStringRuby(c)
}

// newestAllowed is the brute-force maximum over offered-and-allowed versions
// (membership and ordering are go-versions', which is trusted).
func newestAllowed(offered []bw.RegVer, allowed versions.Set) (string, bool) {
	best := -1
	var bestV versions.Version
	for i, o := range offered {
		v, err := versions.ParseVersion(o.V)
		if err != nil || !allowed.Has(v) {
			continue
		}
		// among versions of equal precedence (they differ in build metadata only) the one that
		// prints last: any rule will do as long as it does not look at the order of the listing
		if best < 0 || v.GreaterThan(bestV) || (!bestV.GreaterThan(v) && o.V > offered[best].V) {
			best, bestV = i, v
		}
	}
	if best < 0 {
		return "", false
	}
	return offered[best].V, true
}

type qItem struct {
	remote bool
	text   string
	constr string
	exact  string // final source: exact version
	finder string
	addIdx int
}

func (w *world) closure(adds []bw.Add) *closure {
	c := &closure{pairSet: map[mPair]bool{}, fetched: map[int]bool{}, regAsked: map[int]bool{}, sels: map[regSel]bool{}}
	c.addTarget = make([]*mPair, len(adds))
	c.addSel = make([]*regSel, len(adds))
	var queue []qItem
	for i, a := range adds {
		switch a.Kind {
		case "remote":
			queue = append(queue, qItem{remote: true, text: a.Addr, finder: a.Finder, addIdx: i})
		case "registry":
			queue = append(queue, qItem{text: a.Addr, constr: a.Constr, finder: a.Finder, addIdx: i})
		case "final":
			at := strings.Index(a.Addr, "@")
			pk := a.Addr[:at]
			rest := a.Addr[at+1:]
			ver, sub := rest, ""
			if k := strings.Index(rest, "//"); k >= 0 {
				ver, sub = rest[:k], rest[k+2:]
			}
			t := pk
			if sub != "" {
				t += "//" + sub
			}
			queue = append(queue, qItem{text: t, exact: ver, finder: a.Finder, addIdx: i})
		}
	}
	for len(queue) > 0 {
		it := queue[0]
		queue = queue[1:]
		var pair mPair
		if it.remote {
			pi, sub, ok := w.splitSource(it.text)
			if !ok {
				c.unknown = true
				c.errs = append(c.errs, "unknown package "+it.text)
				continue
			}
			pair = mPair{pi, sub, it.finder}
		} else {
			addr, sub := it.text, ""
			if k := strings.Index(addr, "//"); k >= 0 {
				addr, sub = addr[:k], addr[k+2:]
			}
			ri := w.regIndex(addr)
			if ri < 0 {
				c.unknown = true
				c.errs = append(c.errs, "unknown registry package "+addr)
				continue
			}
			c.regAsked[ri] = true
			var allowed versions.Set
			if it.exact != "" {
				v, err := versions.ParseVersion(it.exact)
				if err != nil {
					c.unknown = true
					continue
				}
				allowed = versions.Only(v)
			} else {
				var err error
				allowed, err = parseConstr(it.constr)
				if err != nil {
					c.unknown = true
					continue
				}
			}
			sel, ok := newestAllowed(w.sc.Regs[ri].Versions, allowed)
			if !ok {
				c.errs = append(c.errs, fmt.Sprintf("no offered version of %s is allowed by %q%s", addr, it.constr, it.exact))
				continue
			}
			rs := regSel{ri, sel}
			c.sels[rs] = true
			var src string
			for _, rv := range w.sc.Regs[ri].Versions {
				if rv.V == sel {
					src = rv.Source
				}
			}
			pi, psub, ok := w.splitSource(src)
			if !ok {
				c.unknown = true
				continue
			}
			full := psub
			if sub != "" {
				full = joinSub(psub, sub)
			}
			pair = mPair{pi, full, it.finder}
			if it.addIdx >= 0 {
				c.addSel[it.addIdx] = &rs
			}
		}
		if it.addIdx >= 0 {
			pp := pair
			c.addTarget[it.addIdx] = &pp
		}
		if w.treeUnknown[pair.Pkg] {
			c.unknown = true
		}
		if !c.fetched[pair.Pkg] && len(w.badTree[pair.Pkg]) > 0 {
			c.errs = append(c.errs, fmt.Sprintf("package %d tree must be refused: %s", pair.Pkg, strings.Join(w.badTree[pair.Pkg], "; ")))
			c.treeErr = true
		}
		c.fetched[pair.Pkg] = true
		if c.pairSet[pair] {
			continue
		}
		c.pairSet[pair] = true
		c.pairs = append(c.pairs, pair)
		// analyse: declarations are read from the fetched (filtered) files
		p := &w.sc.Pkgs[pair.Pkg]
		df := joinSub(pair.Sub, depsFileName(pair.Finder))
		if _, ok := w.files[pair.Pkg][df]; !ok {
			continue
		}
		for mi := range p.Mods {
			m := &p.Mods[mi]
			if m.SubPath != pair.Sub || m.Finder != pair.Finder {
				continue
			}
			for _, dg := range m.Diags {
				if dg.Sev == "E" {
					c.errs = append(c.errs, "finder error diagnostic "+dg.ID)
				}
			}
			for _, d := range m.Deps {
				c.declared++
				switch d.Kind {
				case "local":
					ns, ok := resolveLocal(pair.Sub, d.Addr)
					if !ok {
						c.errs = append(c.errs, fmt.Sprintf("relative dependency %s escapes package from %q", d.Addr, pair.Sub))
						continue
					}
					queue = append(queue, qItem{remote: true, text: p.Source(ns), finder: d.Finder, addIdx: -1})
				case "remote":
					queue = append(queue, qItem{remote: true, text: d.Addr, finder: d.Finder, addIdx: -1})
				case "registry":
					queue = append(queue, qItem{text: d.Addr, constr: d.Constr, finder: d.Finder, addIdx: -1})
				}
			}
			if m.Twice && len(m.Deps) > 0 {
				c.declared++
			}
		}
	}
	return c
}
