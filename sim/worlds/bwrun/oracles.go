package bwrun

import (
	"bytes"
	"fmt"
	"os"
	"path/filepath"
	"sort"
	"strings"

	"github.com/hashicorp/go-slug/sourceaddrs"
	"github.com/hashicorp/go-slug/sourcebundle"

	"verif/sim/model"
	"verif/sim/simkit"
	"verif/sim/worlds/bw"
	"verif/sim/worlds/uwrun"
)

func faultFree(sc *bw.Scenario) bool { return len(sc.Faults) == 0 }

// checkVariant evaluates the per-build oracles.
func checkVariant(sc *bw.Scenario, w *world, cl *closure, res *vresult, out *simkit.Outcome) {
	r := res.r
	vi := r.vi
	if res.deadlock {
		return
	}
	for _, a := range res.adds {
		if strings.HasPrefix(a.Panic, "harness:") {
			out.Skipped = a.Panic
			return
		}
	}
	if len(r.parserPanics) > 0 {
		for _, p := range r.parserPanics {
			out.Violate("C19", "parser-panic", "panic", "address parser panicked on a peer-supplied string: "+p)
		}
	}
	// a panic out of Add that is not the documented refusal of a closed builder
	for _, a := range res.adds {
		if a.Refused && !strings.Contains(a.Panic, "closed sourcebundle.Builder") {
			out.Violate("C19", "add-panic", "panic", fmt.Sprintf("variant %d: Add call %d panicked: %s", vi, a.Idx, a.Panic))
		}
	}
	if res.closePanic != "" && !strings.Contains(res.closePanic, "closed sourcebundle.Builder") {
		out.Violate("C19", "close-panic", "panic", fmt.Sprintf("variant %d: Close panicked: %s", vi, res.closePanic))
	}

	checkPoison(sc, res, out)
	checkDiagDelivery(sc, w, res, out)
	checkDiagPackages(sc, w, res, out)
	checkTrace(sc, res, out)

	if res.closedInTask {
		// which Add calls made it into the bundle depends on who won the lock; only the
		// absolute clauses (no bundle from a failed build, sanitised, poisoning) are judged
		if res.bundle != nil && !res.anyErr {
			checkSanitised(sc, w, cl, res, out)
		}
		out.Probe("close-while-adds-in-flight")
		return
	}
	expectErr := len(cl.errs) > 0
	roUnknown := false
	if sc.UID != 0 {
		// an unprivileged builder cannot discard (or prune below) a read-only directory; whether
		// it has to depends on which twin is placed first. Success and failure are both
		// legitimate then; the absolute clauses (trace bracketing, poisoning) still apply.
		for pi := range sc.Pkgs {
			for _, f := range sc.Pkgs[pi].Files {
				if cl.fetched[pi] && f.Kind == "dir" && f.Mode != 0 && f.Mode&0o200 == 0 {
					roUnknown = true
				}
			}
		}
	}
	if faultFree(sc) && !cl.unknown && !roUnknown {
		if expectErr && !res.anyErr && cl.treeErr {
			out.Violate("C10", "bad-tree-accepted", "accepted", fmt.Sprintf("variant %d: a fetched package must be refused (%s) but no Add call reported an error", vi, strings.Join(cl.errs, "; ")))
		} else if expectErr && !res.anyErr {
			cls := "error-not-reported"
			for _, e := range cl.errs {
				if strings.Contains(e, "no offered version") {
					cls = "no-allowed-version-accepted"
				}
			}
			props := []string{"C17"}
			if cls == "error-not-reported" {
				// an error of the builder's own (a relative address that climbs out of its package,
				// an error diagnostic of a finder) that reaches no caller is a swallowed failure
				props = append(props, "C12")
			}
			for _, prop := range props {
				out.Violate(prop, "expected-error-missing", cls, fmt.Sprintf("variant %d: the model expects an error (%s) but no Add call reported one", vi, strings.Join(cl.errs, "; ")))
			}
		}
		if !expectErr && (res.anyErr || res.bundle == nil) {
			var ds []string
			for _, a := range res.adds {
				ds = append(ds, a.Diags...)
			}
			cls := "spurious-error"
			for _, d := range ds {
				switch {
				case strings.Contains(d, "not a regular file") || strings.Contains(d, "symlink traversing") || strings.Contains(d, "failed to get real path"):
					cls = "tree-rejected"
				case strings.Contains(d, "invalid .terraformignore"):
					cls = "rules-rejected"
				}
			}
			for _, d := range ds {
				if cls == "spurious-error" && strings.Contains(d, "no available version") {
					// the model found an offered version inside the allowed set: resolution is C17's subject
					out.Violate("C17", "selected-versions", "allowed-version-not-found", fmt.Sprintf("variant %d: an offered version lies inside the allowed set, but the build says: %s", vi, simkit.CanonString(d)))
					break
				}
			}
			if cls == "spurious-error" {
				out.Violate("C08", "fault-free-build-failed", cls, fmt.Sprintf("variant %d: no fault, model expects success, but the build failed: closeErr=%v diags=%s", vi, res.closeErr, simkit.CanonString(strings.Join(ds, " || "))))
			}
		}
	}
	if res.bundle == nil || res.anyErr {
		// C10 on failure: nothing is checked inside the target
		return
	}
	if expectErr {
		return
	}
	out.Probe("build-succeeded")
	checkSanitised(sc, w, cl, res, out)
	if cl.unknown {
		return
	}
	checkClosure(sc, w, cl, res, out)
	if faultFree(sc) {
		checkOnce(sc, w, cl, res, out)
	}
	checkVersions(sc, w, cl, res, out)
	checkRoundTripLookups(sc, w, cl, res.bundle, r.target, out, "C18")
}

// ---- C12: poisoning judged on the recorded history ----
func checkPoison(sc *bw.Scenario, res *vresult, out *simkit.Outcome) {
	vi := res.r.vi
	// (1) the Add call on whose task a faulted peer call ran reports an error
	for _, a := range res.adds {
		if a.RanFault && !a.HasErr && !a.Refused {
			out.Violate("C12", "fault-not-reported", "swallowed", fmt.Sprintf("variant %d: a faulted peer call ran on task %d inside Add #%d, which returned no error diagnostic (diags %v)", vi, a.Task, a.Idx, a.Diags))
		}
	}
	// (2) after an error return, every later-invoked call refuses; no bundle from a failed build
	ops := poisonHistory(res)
	if ok, why := checkPoisonHistory(ops); !ok {
		out.Violate("C12", "use-after-error", "not-poisoned", fmt.Sprintf("variant %d: %s", vi, why))
	}
	// (3) the same judged by the order in which the callers held the builder's mutex: a call
	// that first took it after a failing call had let go of it for the last time worked on a
	// failed builder, whenever it was invoked
	for _, f := range res.adds {
		if !f.HasErr || f.LastUnl == 0 {
			continue
		}
		for _, g := range res.adds {
			if !g.HasErr && !g.Refused && g.Panic == "" && g.FirstAcq > f.LastUnl {
				out.Violate("C12", "use-after-error", "success-after-failure", fmt.Sprintf("variant %d: Add #%d (task %d) returned an error and released the builder for the last time at event %d; Add #%d (task %d) first took the builder at event %d and returned success", vi, f.Idx, f.Task, f.LastUnl, g.Idx, g.Task, g.FirstAcq))
			}
		}
	}
	if res.anyErr {
		out.Probe("build-failed")
		if res.bundle != nil {
			out.Violate("C12", "bundle-from-failed-build", "bundle", fmt.Sprintf("variant %d: an Add call reported an error but Close returned a bundle", vi))
		}
		// a failed build's target must not open
		if _, err := sourcebundle.OpenDir(res.r.target); err == nil {
			out.Violate("C12", "failed-target-opens", "opens", fmt.Sprintf("variant %d: the build failed but OpenDir on the target succeeds", vi))
		}
	}
	for _, p := range res.r.probeOpenOK {
		out.Violate("C12", "crash-point-opens", "manifest-early", fmt.Sprintf("variant %d: a copy of the target taken at callback boundary %s opens as a bundle", vi, p))
	}
}

// ---- C12 (4): finder diagnostics reach caller and tracer intact ----
func checkDiagDelivery(sc *bw.Scenario, w *world, res *vresult, out *simkit.Outcome) {
	r := res.r
	vi := r.vi
	counts := map[string]int{}
	for _, e := range r.emitted {
		counts[e.ID]++
	}
	for _, e := range r.emitted {
		seen := r.diagsSeen[e.ID]
		nt, na := 0, 0
		var sig string
		for _, s := range seen {
			if strings.HasPrefix(s, "tracer|") {
				nt++
			} else {
				na++
			}
			sig = s[strings.Index(s, "|")+1:]
		}
		want := counts[e.ID]
		if (r.va.Tracer == "none" || r.va.Tracer == "nodiag") && nt == 0 {
			// no tracer (or none that takes diagnostics) in this variant: delivery to the caller is all there is
			nt = want
			out.Probe("diagnostics-without-tracer")
		}
		if nt != want || na != want {
			out.Violate("C12", "diag-delivery", "count", fmt.Sprintf("variant %d: finder diagnostic %s emitted %d time(s), delivered %d time(s) to the tracer and %d time(s) to Add callers", vi, e.ID, want, nt, na))
			continue
		}
		f := strings.Split(sig, "|")
		// sev|summary|detail|subject|context|extra
		if len(f) < 6 {
			continue
		}
		if f[0] != e.Sev || f[1] != "sim "+e.ID || f[2] != "detail of "+e.ID || f[5] != "extra:"+e.ID {
			out.Violate("C12", "diag-content", "altered", fmt.Sprintf("variant %d: diagnostic %s arrived as %q", vi, e.ID, sig))
		}
		for k, orig := range []string{e.File, e.Ctx} {
			got := f[3+k]
			if orig == "" {
				if got != "" {
					out.Violate("C12", "diag-filename", "invented", fmt.Sprintf("variant %d: diagnostic %s had no file name but arrived with %q", vi, e.ID, got))
				}
				continue
			}
			if orig == "." {
				// the package's own top directory, in the spelling a file system gives it
				orig = ""
			}
			if !sourceaddrs.ValidSubPath(orig) {
				if got != orig {
					out.Violate("C12", "diag-filename", "non-subpath-rewritten", fmt.Sprintf("variant %d: diagnostic %s file name %q is not a sub-path and must pass through, arrived as %q", vi, e.ID, orig, got))
				}
				continue
			}
			src, err := sourceaddrs.ParseRemoteSource(got)
			if err != nil {
				out.Violate("C12", "diag-filename", "unparsable", fmt.Sprintf("variant %d: diagnostic %s file name %q was rewritten to %q, which is not a source address: %v", vi, e.ID, orig, got, err))
				continue
			}
			pi, sub, ok := w.splitSource(got)
			if !ok || sub != orig || src.SubPath() != orig {
				out.Violate("C12", "diag-filename", "wrong-address", fmt.Sprintf("variant %d: diagnostic %s file name %q was rewritten to %q (package %d sub-path %q)", vi, e.ID, orig, got, pi, sub))
			}
		}
		out.Probe("finder-diagnostic-delivered")
	}
}

// checkDiagPackages: when the same diagnostic is emitted for several packages, the k-th
// delivery names a file inside the package the k-th emission was about (C12).
func checkDiagPackages(sc *bw.Scenario, w *world, res *vresult, out *simkit.Outcome) {
	if res.bundle == nil {
		return
	}
	r := res.r
	byID := map[string][]emitted{}
	var ids []string
	for _, e := range r.emitted {
		if len(byID[e.ID]) == 0 {
			ids = append(ids, e.ID)
		}
		byID[e.ID] = append(byID[e.ID], e)
	}
	for _, id := range ids {
		es := byID[id]
		if len(es) < 2 || es[0].File == "" || !sourceaddrs.ValidSubPath(es[0].File) {
			continue
		}
		for _, sink := range []string{"tracer|", "add:"} {
			var sigs []string
			for _, sg := range r.diagsSeen[id] {
				if strings.HasPrefix(sg, sink) {
					sigs = append(sigs, sg[strings.Index(sg, "|")+1:])
				}
			}
			if len(sigs) != len(es) {
				continue // the count oracle reports that
			}
			if sink == "add:" && multiTask(r.va) {
				// callers return in an order of their own: with several of them the k-th
				// diagnostic handed back need not be the k-th raised. The deliveries are paired
				// with the emissions by package where that is possible, in order otherwise.
				es = pairByPackage(es, sigs, w, sc, res)
			}
			for k, e := range es {
				f := strings.Split(sigs[k], "|")
				if len(f) < 6 {
					continue
				}
				pi, _, ok := w.splitSource(f[3])
				if !ok {
					continue // the file-name oracle reports that
				}
				dir, err := pkgDirOf(res.bundle, &sc.Pkgs[pi])
				if err == nil && filepath.Base(dir) != e.Dir {
					out.Violate("C12", "diag-filename", "wrong-package", fmt.Sprintf("variant %d: diagnostic %s, emission %d of %d, was raised for the package in directory %s but arrived (%s) with file name %q, which lies in package %s (directory %s)", res.r.vi, id, k+1, len(es), e.Dir, strings.TrimSuffix(sink, "|"), f[3], sc.Pkgs[pi].Addr(), filepath.Base(dir)))
				} else if err == nil {
					out.Probe("diagnostic-package-checked")
				}
			}
		}
	}
}

// ---- C14: trace bracketing ----
func checkTrace(sc *bw.Scenario, res *vresult, out *simkit.Outcome) {
	vi := res.r.vi
	open := map[string]bool{}
	done := map[string]bool{}
	for _, e := range res.r.trace {
		i := strings.LastIndex(e.Kind, "-")
		if i < 0 {
			continue
		}
		fam, ph := e.Kind[:i], e.Kind[i+1:]
		k := fam + "|" + e.Key
		switch ph {
		case "start":
			if open[k] {
				out.Violate("C14", "trace-bracketing", "start-twice", fmt.Sprintf("variant %d: second %s start for %s before the first ended", vi, fam, e.Key))
			}
			open[k] = true
		case "success", "failure":
			if !open[k] {
				out.Violate("C14", "trace-bracketing", "end-without-start", fmt.Sprintf("variant %d: %s %s for %s without a start", vi, fam, ph, e.Key))
			}
			open[k] = false
			if ph == "success" {
				done[k] = true
			}
		case "already":
			if !done[k] {
				out.Violate("C14", "trace-bracketing", "already-before-success", fmt.Sprintf("variant %d: %s 'already' for %s but no earlier success", vi, fam, e.Key))
			}
		}
	}
	var ks []string
	for k, o := range open {
		if o {
			ks = append(ks, k)
		}
	}
	sort.Strings(ks)
	for _, k := range ks {
		out.Violate("C14", "trace-bracketing", "start-never-ended", fmt.Sprintf("variant %d: %s started but never succeeded or failed", vi, k))
	}
}

func pkgDirOf(b *sourcebundle.Bundle, p *bw.Pkg) (string, error) {
	src, err := sourceaddrs.ParseRemoteSource(p.Addr())
	if err != nil {
		return "", err
	}
	return b.LocalPathForRemoteSource(src)
}

// ---- C08: everything added or discovered is in the bundle ----
func checkClosure(sc *bw.Scenario, w *world, cl *closure, res *vresult, out *simkit.Outcome) {
	b := res.bundle
	vi := res.r.vi
	root := res.r.target
	compared := map[int]bool{}
	for _, pr := range cl.pairs {
		p := &sc.Pkgs[pr.Pkg]
		src, err := sourceaddrs.ParseRemoteSource(p.Source(pr.Sub))
		if err != nil {
			continue
		}
		lp, err := b.LocalPathForRemoteSource(src)
		if err != nil {
			out.Violate("C08", "lookup-missing", "remote", fmt.Sprintf("variant %d: %s was added or discovered (finder %s) but the bundle has no path for it: %v", vi, p.Source(pr.Sub), pr.Finder, err))
			continue
		}
		if !simkit.Under(lp, root) || lp == root {
			out.Violate("C08", "lookup-outside", "remote", fmt.Sprintf("variant %d: lookup of %s gives %s, not inside the bundle %s", vi, p.Source(pr.Sub), lp, root))
			continue
		}
		pdir, _ := pkgDirOf(b, p)
		wantPath := pdir
		if pr.Sub != "" {
			wantPath = pdir + "/" + pr.Sub
		}
		if filepath.Clean(lp) != filepath.Clean(wantPath) {
			out.Violate("C08", "lookup-subpath", "remote", fmt.Sprintf("variant %d: lookup of %s gives %s, expected %s", vi, p.Source(pr.Sub), lp, wantPath))
		}
		// existence iff the fetched (filtered) package contained the sub-path; only decidable when no rule touches it
		if pr.Sub != "" && !touched(w.rules[pr.Pkg], pr.Sub) {
			_, inPkg := w.raw[pr.Pkg][pr.Sub]
			_, statErr := os.Lstat(lp)
			if inPkg && statErr != nil {
				out.Violate("C08", "subpath-missing", "exists", fmt.Sprintf("variant %d: %s exists in the fetched package but %s does not exist", vi, pr.Sub, lp))
			}
			if !inPkg && statErr == nil {
				out.Violate("C08", "subpath-invented", "exists", fmt.Sprintf("variant %d: the fetched package has no %s but %s exists", vi, pr.Sub, lp))
			}
		}
		if !compared[pr.Pkg] {
			compared[pr.Pkg] = true
			comparePkgDir(sc, w, pr.Pkg, pdir, vi, out)
			// metadata unchanged
			pa, _ := sourceaddrs.ParseRemotePackage(p.Addr())
			meta := b.RemotePackageMeta(pa)
			if p.Commit == "" {
				// (a blank PackageMeta carries no information; nil and blank are both accepted here)
				if meta != nil && (meta.GitCommitID() != "" || meta.GitCommitMessage() != "") {
					out.Violate("C08", "meta", "invented", fmt.Sprintf("variant %d: package %s had no metadata but the bundle reports %q", vi, p.Addr(), meta.GitCommitID()))
				}
			} else if meta == nil || meta.GitCommitID() != p.Commit || meta.GitCommitMessage() != p.Msg {
				out.Violate("C08", "meta", "changed", fmt.Sprintf("variant %d: package %s metadata (%q,%q) not retrievable unchanged: %+v", vi, p.Addr(), p.Commit, p.Msg, meta))
			}
		}
	}
	// every Add that named a registry source resolves to the same place as the remote address the registry named
	for i, a := range sc.Adds {
		if a.Kind == "remote" || cl.addTarget[i] == nil || cl.addSel[i] == nil {
			continue
		}
		tg := cl.addTarget[i]
		p := &sc.Pkgs[tg.Pkg]
		want, err := pkgDirOf(b, p)
		if err != nil {
			continue
		}
		if tg.Sub != "" {
			want += "/" + tg.Sub
		}
		var got string
		if a.Kind == "final" {
			fa, _ := sourceaddrs.ParseFinalRegistrySource(a.Addr)
			got, err = b.LocalPathForFinalRegistrySource(fa)
			if err == nil {
				g2, err2 := b.LocalPathForSource(fa)
				if err2 != nil || g2 != got {
					out.Violate("C08", "lookup-registry", "final-vs-generic", fmt.Sprintf("variant %d: LocalPathForSource(%s)=%q,%v but LocalPathForFinalRegistrySource=%q", vi, a.Addr, g2, err2, got))
				}
			}
		} else {
			ra, _ := sourceaddrs.ParseRegistrySource(a.Addr)
			got, err = b.LocalPathForRegistrySource(ra, parseVersion(cl.addSel[i].Version))
		}
		if err != nil {
			out.Violate("C08", "lookup-missing", "registry", fmt.Sprintf("variant %d: registry source %s (selected %s) has no path in the bundle: %v", vi, a.Addr, cl.addSel[i].Version, err))
			continue
		}
		if filepath.Clean(got) != filepath.Clean(want) {
			out.Violate("C08", "lookup-registry", "location", fmt.Sprintf("variant %d: registry source %s resolves to %s, but the registry's address joined with the caller's sub-path is %s", vi, a.Addr, got, want))
		}
		out.Probe("registry-lookup-checked")
	}
	// registry metadata
	for rs := range cl.sels {
		rp := &sc.Regs[rs.Reg]
		pa, _ := sourceaddrs.ParseRegistryPackage(rp.Addr)
		for _, rv := range rp.Versions {
			if rv.V != rs.Version {
				continue
			}
			src, ok := b.RegistryPackageSourceAddr(pa, parseVersion(rv.V))
			if !ok || src.String() != w.printed(rv.Source) {
				out.Violate("C08", "registry-meta", "source", fmt.Sprintf("variant %d: %s %s: registry named %s, bundle reports %q (found %v)", vi, rp.Addr, rv.V, rv.Source, src.String(), ok))
			}
			dep := b.RegistryPackageVersionDeprecation(pa, parseVersion(rv.V))
			// (C17 names the deprecation note; for C08 it is registry metadata that must be retrievable unchanged)
			if rv.DepReason == "" && rv.DepLink == "" {
				if dep != nil {
					out.Violate("C17", "deprecation", "invented", fmt.Sprintf("variant %d: %s %s is not deprecated but the bundle records %+v", vi, rp.Addr, rv.V, *dep))
					out.Violate("C08", "registry-meta", "deprecation", fmt.Sprintf("variant %d: %s %s is not deprecated but the bundle records %+v", vi, rp.Addr, rv.V, *dep))
				}
			} else if dep == nil || dep.Reason != rv.DepReason || dep.Link != rv.DepLink {
				out.Violate("C17", "deprecation", "wrong", fmt.Sprintf("variant %d: %s %s deprecation %q/%q, bundle records %+v", vi, rp.Addr, rv.V, rv.DepReason, rv.DepLink, dep))
				out.Violate("C08", "registry-meta", "deprecation", fmt.Sprintf("variant %d: %s %s deprecation %q/%q, bundle records %+v", vi, rp.Addr, rv.V, rv.DepReason, rv.DepLink, dep))
			} else {
				out.Probe("deprecation-recorded")
			}
		}
	}
}

func touched(rules []model.IgRule, p string) bool {
	for {
		if model.Touches(rules, p) {
			return true
		}
		i := strings.LastIndex(p, "/")
		if i < 0 {
			return false
		}
		p = p[:i]
	}
}

// comparePkgDir: the package directory holds exactly the fetched content minus
// what the rules exclude (files and links strictly; directories only when no rule touches them).
func comparePkgDir(sc *bw.Scenario, w *world, pi int, pdir string, vi int, out *simkit.Outcome) {
	got := uwrun.ListTree(pdir)
	// Packages with equal file paths and contents share one directory (C13); what they do
	// not share - empty directories, which the content hash does not see - comes from
	// whichever was placed first. Directory presence is therefore only judged for a
	// package without such a twin.
	hasTwin := false
	for qi := range sc.Pkgs {
		if qi != pi && w.content[qi] == w.content[pi] {
			hasTwin = true
		}
	}
	raw := w.raw[pi]
	rules := w.rules[pi]
	hasRules := sc.Pkgs[pi].Rules != nil
	var paths []string
	for p := range raw {
		paths = append(paths, p)
	}
	sort.Strings(paths)
	for _, p := range paths {
		f := raw[p]
		g, present := got[p]
		switch f.Kind {
		case "dir":
			if model.DirGone(rules, p) {
				if present && hasTwin {
					continue // the directory may be the content twin's (see above)
				}
				if present {
					out.Violate("C03", "bundle-excluded-kept", "directory-skeleton", fmt.Sprintf("variant %d: package %d: directory %s is selected by its rules %q with no later '!' rule, yet it is still in the bundle", vi, pi, p, rulesOf(sc, pi)))
				} else {
					out.Probe("bundle-dir-removed-by-rules")
				}
				continue
			}
			if touched(rules, p) {
				continue
			}
			if (!present || g.Kind != 'd') && !hasTwin {
				out.Violate("C08", "content", "dir-missing", fmt.Sprintf("variant %d: package %d directory %s is missing from the bundle", vi, pi, p))
			}
			continue
		case "fifo", "sock", "dev":
			continue
		}
		ex := model.Excluded(rules, p)
		if ex {
			if present {
				cls := "rule-semantics"
				out.Violate("C03", "bundle-excluded-kept", cls, fmt.Sprintf("variant %d: package %d: %s is excluded by its rules %q but is still in the bundle", vi, pi, p, rulesOf(sc, pi)))
				// (C10 says the same of a finished bundle: everything its ignore rules exclude has been removed)
				out.Violate("C10", "bundle-excluded-kept", cls, fmt.Sprintf("variant %d: package %d: %s is excluded by its rules %q but is still in the bundle", vi, pi, p, rulesOf(sc, pi)))
			} else {
				out.Probe("bundle-path-removed-by-rules")
			}
			continue
		}
		if !present {
			if hasRules {
				out.Violate("C03", "bundle-included-removed", "rule-semantics", fmt.Sprintf("variant %d: package %d: %s is not excluded by its rules %q but is missing from the bundle", vi, pi, p, rulesOf(sc, pi)))
			} else {
				out.Violate("C08", "content", "missing", fmt.Sprintf("variant %d: package %d: fetched file %s is missing from the bundle", vi, pi, p))
			}
			continue
		}
		switch f.Kind {
		case "file":
			if g.Kind != 'f' || !bytes.Equal(g.Body, []byte(f.Body)) {
				out.Violate("C08", "content", "differs", fmt.Sprintf("variant %d: package %d: %s differs from the fetched content", vi, pi, p))
			}
		case "link":
			if g.Kind != 'l' || g.Target != f.Target {
				out.Violate("C08", "content", "link-differs", fmt.Sprintf("variant %d: package %d: link %s -> %q, fetched -> %q", vi, pi, p, g.Target, f.Target))
			}
		}
	}
	var extra []string
	for p := range got {
		if _, ok := raw[p]; !ok {
			extra = append(extra, p)
		}
	}
	sort.Strings(extra)
	for _, p := range extra {
		if hasTwin && got[p].Kind == 'd' {
			continue
		}
		out.Violate("C08", "content", "extra", fmt.Sprintf("variant %d: package %d: %s is in the bundle but was not fetched", vi, pi, p))
	}
}

func rulesOf(sc *bw.Scenario, pi int) string {
	if sc.Pkgs[pi].Rules == nil {
		return ""
	}
	return strings.ReplaceAll(strings.TrimSpace(*sc.Pkgs[pi].Rules), "\n", " ; ")
}

// ---- C10: package directories are sanitised ----
func checkSanitised(sc *bw.Scenario, w *world, cl *closure, res *vresult, out *simkit.Outcome) {
	vi := res.r.vi
	root := res.r.target
	ents, _ := os.ReadDir(root)
	for _, e := range ents {
		if strings.HasPrefix(e.Name(), ".tmp-") {
			out.Violate("C10", "temp-dir-left", "tmp", fmt.Sprintf("variant %d: temporary directory %s left in a finished bundle", vi, simkit.CanonString(e.Name())))
			continue
		}
		if !e.IsDir() {
			continue
		}
		pdir := root + "/" + e.Name()
		tree := uwrun.ListTree(pdir)
		var ps []string
		for p := range tree {
			ps = append(ps, p)
		}
		sort.Strings(ps)
		for _, p := range ps {
			n := tree[p]
			switch n.Kind {
			case 'f', 'd':
			case 'l':
				var start string
				if strings.HasPrefix(n.Target, "/") {
					start = n.Target
				} else {
					start = filepath.Dir(pdir+"/"+p) + "/" + n.Target
				}
				resd, exists, err := simkit.ResolvePhysical(start)
				cls := ""
				switch {
				case err != nil:
					cls = "loop"
				case !simkit.Under(resd, physOf(pdir)):
					cls = "leaves-package"
					if strings.Contains(n.Target, ".tmp-") {
						cls = "names-temp-dir"
					}
				case !exists:
					cls = "dangling"
					if strings.Contains(n.Target, ".tmp-") {
						cls = "names-temp-dir"
					}
				default:
					if fi, e2 := os.Lstat(resd); e2 != nil || !(fi.Mode().IsRegular() || fi.IsDir()) {
						cls = "special-target"
					}
				}
				if cls != "" {
					out.Violate("C10", "bad-link-kept", cls, fmt.Sprintf("variant %d: finished bundle keeps link %s/%s -> %q (%s, resolves to %s)", vi, e.Name(), p, simkit.CanonString(n.Target), cls, simkit.CanonString(resd)))
				} else {
					out.Probe("bundle-link-validated")
				}
			default:
				out.Violate("C10", "special-file-kept", "special", fmt.Sprintf("variant %d: finished bundle keeps special file %s/%s", vi, e.Name(), p))
			}
		}
	}
}

// ---- C14: every piece of work exactly once, bounded steps ----
func checkOnce(sc *bw.Scenario, w *world, cl *closure, res *vresult, out *simkit.Outcome) {
	r := res.r
	vi := r.vi
	b := res.bundle
	fetches := map[string]int{}
	vers := map[string]int{}
	srcs := map[string]int{}
	finds := map[string]int{}
	for _, c := range r.calls {
		switch c.Site {
		case "fetch":
			fetches[c.Key]++
		case "versions":
			vers[c.Key]++
		case "source":
			srcs[c.Key]++
		case "find":
			finds[c.Key]++
		}
	}
	for pi := range sc.Pkgs {
		want := 0
		if cl.fetched[pi] {
			want = 1
		}
		if got := fetches[sc.Pkgs[pi].Addr()]; got != want {
			cls := "fetched-again"
			if got < want {
				cls = "not-fetched"
			}
			out.Violate("C14", "fetch-count", cls, fmt.Sprintf("variant %d: package %s fetched %d time(s), expected %d", vi, sc.Pkgs[pi].Addr(), got, want))
		}
	}
	for ri := range sc.Regs {
		want := 0
		if cl.regAsked[ri] {
			want = 1
		}
		if got := vers[sc.Regs[ri].Addr]; got != want {
			out.Violate("C14", "versions-count", "count", fmt.Sprintf("variant %d: version list of %s requested %d time(s), expected %d", vi, sc.Regs[ri].Addr, got, want))
		}
	}
	wantSrc := map[string]int{}
	for rs := range cl.sels {
		wantSrc[sc.Regs[rs.Reg].Addr+"@"+parseVersion(rs.Version).String()] = 1
	}
	for k, n := range srcs {
		if n != wantSrc[k] {
			out.Violate("C14", "source-count", "count", fmt.Sprintf("variant %d: source address of %s requested %d time(s), expected %d", vi, k, n, wantSrc[k]))
		}
	}
	for k := range wantSrc {
		if srcs[k] == 0 {
			out.Violate("C14", "source-count", "count", fmt.Sprintf("variant %d: source address of %s never requested", vi, k))
		}
	}
	// finder calls per (package directory, sub-path, finder): one per model pair mapping there
	wantFind := map[string]int{}
	for _, pr := range cl.pairs {
		pd, err := pkgDirOf(b, &sc.Pkgs[pr.Pkg])
		if err != nil {
			continue
		}
		wantFind[filepath.Base(pd)+"|"+pr.Sub+"|"+pr.Finder]++
	}
	var fk []string
	for k := range finds {
		fk = append(fk, k)
	}
	for k := range wantFind {
		if _, ok := finds[k]; !ok {
			fk = append(fk, k)
		}
	}
	sort.Strings(fk)
	for _, k := range fk {
		if finds[k] != wantFind[k] {
			cls := "analysed-again"
			if finds[k] < wantFind[k] {
				cls = "not-analysed"
			}
			out.Violate("C14", "analysis-count", cls, fmt.Sprintf("variant %d: (%s) analysed %d time(s), expected %d", vi, k, finds[k], wantFind[k]))
		}
	}
	// termination as a step bound computed from the model
	bound := 10*(len(sc.Adds)+cl.declared) + 10
	work := len(r.calls) + len(r.trace)
	if work > bound {
		out.Violate("C14", "step-bound", "too-many-steps", fmt.Sprintf("variant %d: %d peer calls and trace events for %d Add calls and %d declared dependencies (bound %d)", vi, work, len(sc.Adds), cl.declared, bound))
	}
	if len(cl.pairs) > len(sc.Adds) {
		out.Probe("dependencies-discovered")
	}
}

// ---- C17 ----
func checkVersions(sc *bw.Scenario, w *world, cl *closure, res *vresult, out *simkit.Outcome) {
	b := res.bundle
	vi := res.r.vi
	for ri := range sc.Regs {
		var want []string
		for rs := range cl.sels {
			if rs.Reg == ri {
				want = append(want, parseVersion(rs.Version).String())
			}
		}
		sort.Strings(want)
		pa, _ := sourceaddrs.ParseRegistryPackage(sc.Regs[ri].Addr)
		var got []string
		for _, v := range b.RegistryPackageVersions(pa) {
			got = append(got, v.String())
		}
		sort.Strings(got)
		if strings.Join(got, ",") != strings.Join(want, ",") {
			out.Violate("C17", "selected-versions", "selection", fmt.Sprintf("variant %d: bundle holds versions %v of %s, the newest allowed per request are %v (offered %v)", vi, got, sc.Regs[ri].Addr, want, offered(sc.Regs[ri])))
		} else if len(want) > 0 {
			out.Probe("version-selection-checked")
		}
	}
	// the registry client was asked only for selected versions
	for _, c := range res.r.calls {
		if c.Site != "source" {
			continue
		}
		ok := false
		for rs := range cl.sels {
			if sc.Regs[rs.Reg].Addr+"@"+parseVersion(rs.Version).String() == c.Key {
				ok = true
			}
		}
		if !ok {
			out.Violate("C17", "requested-version", "selection", fmt.Sprintf("variant %d: the registry was asked for %s, which is not the newest allowed version of any request", vi, c.Key))
		}
	}
}

func offered(rp bw.RegPkg) []string {
	var o []string
	for _, v := range rp.Versions {
		o = append(o, v.V)
	}
	return o
}

// ---- C18 (second half): translating a local path to an address and back ----
func checkRoundTripLookups(sc *bw.Scenario, w *world, cl *closure, b *sourcebundle.Bundle, root string, out *simkit.Outcome, prop string) {
	ents, _ := os.ReadDir(root)
	n := 0
	for _, e := range ents {
		if !e.IsDir() {
			continue
		}
		pdir := root + "/" + e.Name()
		tree := uwrun.ListTree(pdir)
		var ps []string
		for p := range tree {
			ps = append(ps, p)
		}
		sort.Strings(ps)
		ps = append([]string{""}, ps...)
		for _, p := range ps {
			lp := pdir
			if p != "" {
				lp = pdir + "/" + p
			}
			src, err := b.SourceForLocalPath(lp)
			if err != nil {
				out.Violate(prop, "reverse-lookup", "not-found", fmt.Sprintf("path %s inside package directory %s is reported as not belonging to the bundle: %v", simkit.CanonString(lp), e.Name(), err))
				continue
			}
			back, err := b.LocalPathForSource(src)
			if err != nil || filepath.Clean(back) != filepath.Clean(lp) {
				out.Violate(prop, "reverse-lookup", "not-inverse", fmt.Sprintf("path %s -> %s -> %q (%v)", lp, src, back, err))
			}
			if p == "" {
				// several packages may share this directory: which of them is named is a function
				// of the bundle, not of the call (each call iterates the package table afresh)
				for i := 0; i < 8; i++ {
					if again, err := b.SourceForLocalPath(lp); err != nil || again.String() != src.String() {
						// (not a matter of C18, whose round trip holds for either alias: it is the
						// "same answer to every lookup" of C09 and the "function of its inputs" of C13)
						for _, pr := range []string{"C09", "C13"} {
							out.Violate(pr, "reverse-lookup", "alias-unstable", fmt.Sprintf("path %s translates to %s in one call and to %v (%v) in another on the same bundle", simkit.CanonString(lp), src, again, err))
						}
						break
					}
				}
			}
			n++
		}
	}
	// relative paths mean what they mean at the time of the call
	if cwd, err := os.Getwd(); err == nil {
		for _, e := range ents {
			if !e.IsDir() {
				continue
			}
			pdir := root + "/" + e.Name()
			want, werr := b.SourceForLocalPath(pdir + "/main.tf")
			if werr != nil || os.Chdir(pdir) != nil {
				continue
			}
			got, err := b.SourceForLocalPath("main.tf")
			if err != nil || got.String() != want.String() {
				out.Violate(prop, "reverse-lookup", "relative-path", fmt.Sprintf("with the working directory inside package directory %s, the relative path main.tf translates to %v (%v); its absolute spelling translates to %s", e.Name(), got, err, want))
			}
			os.Chdir("/cwd")
			if src, err := b.SourceForLocalPath(e.Name() + "/main.tf"); err == nil {
				out.Violate(prop, "reverse-lookup", "outside-accepted", fmt.Sprintf("with the working directory /cwd, the relative path %s/main.tf (not in the bundle) translates to %s", e.Name(), src))
			}
			out.Probe("reverse-lookup-relative")
			break
		}
		os.Chdir(cwd)
	}
	for _, p := range []string{root, root + "/terraform-sources.json", root + "/..", filepath.Dir(root) + "/SIBLING/main.tf", "/etc/shadow", root + "/no-such-dir/x"} {
		if src, err := b.SourceForLocalPath(p); err == nil {
			out.Violate(prop, "reverse-lookup", "outside-accepted", fmt.Sprintf("path %s does not lie in any package directory but translates to %s", p, src))
		}
	}
	if n > 0 {
		out.Probe("reverse-lookups-checked")
	}
}

// ---- C13: the bundle is a function of its inputs ----
func checkAcrossVariants(sc *bw.Scenario, w *world, cl *closure, results []*vresult, out *simkit.Outcome) {
	if len(cl.errs) > 0 || !faultFree(sc) {
		return
	}
	var ref *vresult
	for _, res := range results {
		if res.bundle == nil || res.anyErr || res.closedInTask {
			continue
		}
		// coalescing: two fetched packages share a directory iff their filtered file path->content maps are equal
		var ids []int
		for pi := range sc.Pkgs {
			if cl.fetched[pi] {
				ids = append(ids, pi)
			}
		}
		for x := 0; x < len(ids); x++ {
			for y := x + 1; y < len(ids); y++ {
				a, b := ids[x], ids[y]
				da, e1 := pkgDirOf(res.bundle, &sc.Pkgs[a])
				db, e2 := pkgDirOf(res.bundle, &sc.Pkgs[b])
				if e1 != nil || e2 != nil {
					continue
				}
				same := w.content[a] == w.content[b]
				if same && da != db && !linkOrModeDiffer(w, a, b) {
					out.Violate("C13", "coalescing", "not-shared", fmt.Sprintf("variant %d: packages %s and %s have identical file paths and contents but live in %s and %s", res.r.vi, sc.Pkgs[a].Addr(), sc.Pkgs[b].Addr(), filepath.Base(da), filepath.Base(db)))
				}
				if !same && da == db {
					out.Violate("C13", "coalescing", "shared-although-different", fmt.Sprintf("variant %d: packages %s and %s differ in a file path or content but share directory %s", res.r.vi, sc.Pkgs[a].Addr(), sc.Pkgs[b].Addr(), filepath.Base(da)))
				}
				if same && da == db {
					out.Probe("packages-coalesced")
				}
			}
		}
		res.lookups = lookupTable(sc, cl, res)
		if ref == nil {
			ref = res
			continue
		}
		if !bytes.Equal(ref.manifest, res.manifest) {
			out.Violate("C13", "manifest-differs", variantClass(sc, ref, res), fmt.Sprintf("variants %d and %d of the same world and Add set produce different manifests (%d vs %d bytes): %s", ref.r.vi, res.r.vi, len(ref.manifest), len(res.manifest), firstDiffLine(ref.manifest, res.manifest)))
		}
		if ref.checksum != res.checksum {
			out.Violate("C13", "checksum-differs", variantClass(sc, ref, res), fmt.Sprintf("variants %d and %d: checksum %s vs %s", ref.r.vi, res.r.vi, ref.checksum, res.checksum))
		}
		if strings.Join(ref.listing, ",") != strings.Join(res.listing, ",") {
			out.Violate("C13", "listing-differs", variantClass(sc, ref, res), fmt.Sprintf("variants %d and %d: target listing %v vs %v", ref.r.vi, res.r.vi, ref.listing, res.listing))
		}
		if strings.Join(ref.lookups, "\n") != strings.Join(res.lookups, "\n") {
			out.Violate("C13", "lookups-differ", variantClass(sc, ref, res), fmt.Sprintf("variants %d and %d answer lookups differently", ref.r.vi, res.r.vi))
		}
		out.Probe("variants-compared")
	}
	// a variant that fails where another succeeds
	for _, res := range results {
		if ref != nil && (res.bundle == nil || res.anyErr) && !res.deadlock && !res.closedInTask {
			out.Violate("C13", "variant-fails", variantClass(sc, ref, res), fmt.Sprintf("variant %d succeeds but variant %d of the same world and Add set fails", ref.r.vi, res.r.vi))
		}
	}
}

func linkOrModeDiffer(w *world, a, b int) bool {
	fa, fb := w.files[a], w.files[b]
	for p, x := range fa {
		y, ok := fb[p]
		if x.Kind != "file" && (!ok || x.Kind != y.Kind || x.Target != y.Target) {
			return true
		}
	}
	for p, y := range fb {
		if _, ok := fa[p]; !ok && y.Kind != "file" {
			return true
		}
	}
	return false
}

func variantClass(sc *bw.Scenario, a, b *vresult) string {
	va, vb := a.r.va, b.r.va
	mt := func(v *bw.Variant) bool {
		for _, t := range v.Tasks {
			if t > 0 {
				return true
			}
		}
		return false
	}
	switch {
	case mt(va) || mt(vb):
		return "interleaving"
	case fmt.Sprint(va.Order) != fmt.Sprint(vb.Order):
		return "add-order"
	case va.PermSalt != vb.PermSalt:
		return "discovery-order"
	}
	return "identical-rerun"
}

func firstDiffLine(a, b []byte) string {
	la, lb := strings.Split(string(a), "\n"), strings.Split(string(b), "\n")
	for i := 0; i < len(la) || i < len(lb); i++ {
		var x, y string
		if i < len(la) {
			x = la[i]
		}
		if i < len(lb) {
			y = lb[i]
		}
		if x != y {
			return fmt.Sprintf("line %d: %q vs %q", i+1, x, y)
		}
	}
	return "equal"
}

func lookupTable(sc *bw.Scenario, cl *closure, res *vresult) []string {
	var t []string
	root := res.r.target
	for _, pr := range cl.pairs {
		src, err := sourceaddrs.ParseRemoteSource(sc.Pkgs[pr.Pkg].Source(pr.Sub))
		if err != nil {
			continue
		}
		lp, err := res.bundle.LocalPathForRemoteSource(src)
		rel, _ := filepath.Rel(root, lp)
		t = append(t, fmt.Sprintf("%s => %s %v", src, rel, err != nil))
	}
	sort.Strings(t)
	return t
}

// physOf is the physical spelling of an existing path (the target directory
// may be named by way of a link).
func physOf(p string) string {
	if q, _, err := simkit.ResolvePhysical(p); err == nil {
		return q
	}
	return p
}

// multiTask: do several client tasks issue this variant's Add calls?
func multiTask(va *bw.Variant) bool {
	for _, t := range va.Tasks {
		if t != 0 {
			return true
		}
	}
	return false
}

// pairByPackage reorders the emissions so that, as far as possible, the k-th one is about
// the package the k-th delivered file name lies in (a matching of two multisets); what
// cannot be matched keeps its place and is reported by the caller.
func pairByPackage(es []emitted, sigs []string, w *world, sc *bw.Scenario, res *vresult) []emitted {
	out := make([]emitted, len(es))
	used := make([]bool, len(es))
	filled := make([]bool, len(es))
	for k, sg := range sigs {
		f := strings.Split(sg, "|")
		if len(f) < 6 {
			continue
		}
		pi, _, ok := w.splitSource(f[3])
		if !ok {
			continue
		}
		dir, err := pkgDirOf(res.bundle, &sc.Pkgs[pi])
		if err != nil {
			continue
		}
		for j := range es {
			if !used[j] && es[j].Dir == filepath.Base(dir) {
				out[k], used[j], filled[k] = es[j], true, true
				break
			}
		}
	}
	j := 0
	for k := range out {
		if filled[k] {
			continue
		}
		for used[j] {
			j++
		}
		out[k], used[j] = es[j], true
	}
	return out
}
