package bwrun

import (
	"context"
	"errors"
	"fmt"
	"io/fs"
	"net/url"
	"os"
	"path"
	"path/filepath"
	"sort"
	"strings"
	"syscall"

	"github.com/apparentlymart/go-versions/versions"
	regaddr "github.com/hashicorp/terraform-registry-address"

	"github.com/hashicorp/go-slug/sourceaddrs"
	"github.com/hashicorp/go-slug/sourcebundle"

	"verif/sim/simkit"
	"verif/sim/worlds/bw"
)

// Call is one entry of the peers' call log (the history C14 is checked on).
type Call struct {
	Seq    int
	Task   int
	Site   string // fetch versions source find
	Key    string
	N      int // n-th call of this site (1-based)
	Fault  string
	Result string
}

type TraceEv struct {
	Seq  int
	Task int
	Kind string // e.g. download-start
	Key  string
}

// cur is the run the (stateless, comparable) finder singletons report to.
var cur *vrun

var errPeer = errors.New("simulated peer failure")

// errPeerTimeout is a failure that describes itself as a timeout (net.Error style).
type errPeerTimeoutT struct{}

func (errPeerTimeoutT) Error() string   { return "simulated peer failure: i/o timeout" }
func (errPeerTimeoutT) Timeout() bool   { return true }
func (errPeerTimeoutT) Temporary() bool { return true }

var errPeerTimeout error = errPeerTimeoutT{}

type vrun struct {
	sc           *bw.Scenario
	va           *bw.Variant
	vi           int
	w            *world
	log          *simkit.Log
	out          *simkit.Outcome
	sched        *simkit.Sched
	inTasks      bool
	target       string
	calls        []Call
	trace        []TraceEv
	siteN        map[string]int
	cancels      map[int]context.CancelFunc // per task
	pkgAddr      []sourceaddrs.RemotePackage
	regAddr      []regaddr.ModulePackage
	staticDiags  map[string]sourcebundle.Diagnostics
	diagsSeen    map[string][]string // diag id -> where it was delivered ("tracer", "add:<i>")
	lockFirst    map[int]int         // task -> event number of the current call's first mutex acquisition
	lockLast     map[int]int         // task -> event number of the current call's last mutex release
	emitted      []emitted
	probe        bool
	probeOpenOK  []string
	tmpDirs      map[string]bool
	faultsFired  map[string]int
	parserPanics []string
	capHit       bool
}

type emitted struct {
	ID, Sev, File, Ctx string
	Dir                string // package directory the finder was looking at
	Pkg                int
	Task               int
	Seq                int
}

func (r *vrun) task() int {
	if r.sched != nil && r.inTasks && r.sched.Cur() != nil {
		return r.sched.Cur().ID
	}
	return -1
}

func (r *vrun) yield(kind string) {
	if r.sched != nil && r.inTasks {
		r.sched.YieldPoint(kind)
	}
}

// stepCapPanic aborts a build whose peer calls exceed the simulator's step cap
// (the property-level bound of C14/C19): it unwinds out of the Add call.
type stepCapPanic struct{}

const buildStepCap = 20000

func (r *vrun) call(site, key string) *Call {
	if r.log.Steps > buildStepCap {
		r.capHit = true
		panic(stepCapPanic{})
	}
	r.siteN[site]++
	c := Call{Seq: r.log.Steps + 1, Task: r.task(), Site: site, Key: key, N: r.siteN[site]}
	for _, f := range r.sc.Faults {
		if f.Site == site && f.N == c.N {
			c.Fault = f.Kind
		}
	}
	r.log.Add(c.Task, "peer-"+site, fmt.Sprintf("#%d %s fault=%s", c.N, key, c.Fault))
	r.calls = append(r.calls, c)
	if r.probe {
		r.crashProbe(site, c.N)
	}
	r.yield(site)
	if c.Fault != "" {
		r.faultsFired[site+"/"+c.Fault]++
	}
	return &r.calls[len(r.calls)-1]
}

// crashProbe models a crash at this callback boundary: the target directory is
// copied aside (all completed system calls durable) and must not open as a bundle.
func (r *vrun) crashProbe(site string, n int) {
	dst := fmt.Sprintf("/scratch/probe-%d", r.vi)
	os.RemoveAll(dst)
	copyTree(r.target, dst)
	if _, err := sourcebundle.OpenDir(dst); err == nil {
		r.probeOpenOK = append(r.probeOpenOK, fmt.Sprintf("%s#%d", site, n))
	}
	simkit.ForceRemoveAll(dst)
	r.out.Probe("crash-probe")
}

func copyTree(src, dst string) {
	filepath.Walk(src, func(p string, info os.FileInfo, err error) error {
		if err != nil {
			return nil
		}
		rel, _ := filepath.Rel(src, p)
		q := filepath.Join(dst, rel)
		switch {
		case info.Mode()&os.ModeSymlink != 0:
			t, _ := os.Readlink(p)
			os.Symlink(t, q)
		case info.IsDir():
			os.MkdirAll(q, 0o755)
		case info.Mode().IsRegular():
			b, _ := os.ReadFile(p)
			os.WriteFile(q, b, 0o644)
		}
		return nil
	})
}

// ---- fetcher ----

type fetcher struct{ r *vrun }

func (f fetcher) FetchSourcePackage(ctx context.Context, sourceType string, u *url.URL, targetDir string) (sourcebundle.FetchSourcePackageResponse, error) {
	r := f.r
	var resp sourcebundle.FetchSourcePackageResponse
	pi := -1
	for i, pa := range r.pkgAddr {
		if pa.SourceType() == sourceType && pa.URL().String() == u.String() {
			pi = i
		}
	}
	key := sourceType + "::" + u.String()
	if pi >= 0 {
		key = r.sc.Pkgs[pi].Addr()
	}
	r.tmpDirs[filepath.Base(targetDir)] = true
	c := r.call("fetch", key)
	if err := ctx.Err(); err != nil && c.Fault == "" {
		// a well-behaved fetcher responds to cancellation
		c.Result = "ctx-cancelled"
		c.Fault = "ctx"
		return resp, err
	}
	if pi < 0 {
		c.Result = "unknown"
		return resp, fmt.Errorf("no such package %s", key)
	}
	switch c.Fault {
	case "err":
		c.Result = "err"
		return resp, errPeer
	case "cancel":
		if cf := r.cancels[c.Task]; cf != nil {
			cf()
		}
		c.Result = "cancelled"
		if err := ctx.Err(); err != nil {
			return resp, err
		}
		return resp, context.Canceled
	case "stall":
		for i := 0; i < 3; i++ {
			r.yield("stall")
		}
	}
	p := &r.sc.Pkgs[pi]
	raw := r.w.raw[pi]
	var paths []string
	for pa := range raw {
		paths = append(paths, pa)
	}
	sort.Slice(paths, func(a, b int) bool {
		da, db := strings.Count(paths[a], "/"), strings.Count(paths[b], "/")
		if da != db {
			return da < db
		}
		return paths[a] < paths[b]
	})
	limit := len(paths)
	if c.Fault == "torn" || c.Fault == "torn-timeout" {
		limit = len(paths) / 2
		if limit == 0 && len(paths) > 0 {
			limit = 1
		}
	}
	for _, pa := range paths[:limit] {
		fl := raw[pa]
		full := filepath.Join(targetDir, pa)
		os.MkdirAll(filepath.Dir(full), 0o755)
		var err error
		switch fl.Kind {
		case "dir":
			err = os.MkdirAll(full, 0o755)
		case "file":
			mode := os.FileMode(fl.Mode)
			if mode == 0 {
				mode = 0o644
			}
			err = os.WriteFile(full, []byte(fl.Body), mode)
			if err == nil {
				err = os.Chmod(full, mode)
			}
		case "link":
			tgt := fl.Target
			if strings.Contains(tgt, "@SIBLINGPKG@") {
				// a hostile fetcher looks around: it links to whatever package directory already sits next to its own
				sib := "no-sibling-yet"
				if ents, e := os.ReadDir(filepath.Dir(targetDir)); e == nil {
					for _, en := range ents {
						if en.IsDir() && !strings.HasPrefix(en.Name(), ".tmp-") {
							sib = en.Name()
							r.out.Probe("hostile-link-to-existing-sibling-package")
							break
						}
					}
				}
				tgt = strings.ReplaceAll(tgt, "@SIBLINGPKG@", sib)
			}
			if strings.Contains(tgt, "@TMP") {
				tgt = strings.ReplaceAll(strings.ReplaceAll(tgt, "@TMPBASE@", filepath.Base(targetDir)), "@TMPABS@", targetDir)
				r.out.Probe("hostile-link-names-the-temporary-directory")
			}
			err = os.Symlink(tgt, full)
		case "fifo":
			err = syscall.Mkfifo(full, 0o644)
		case "sock":
			var fd int
			if fd, err = syscall.Socket(syscall.AF_UNIX, syscall.SOCK_STREAM, 0); err == nil {
				err = syscall.Bind(fd, &syscall.SockaddrUnix{Name: full})
				syscall.Close(fd)
			}
		case "dev":
			err = syscall.Mknod(full, syscall.S_IFCHR|0o644, 1<<8|3)
		}
		if err != nil {
			c.Result = "harness-write-error: " + err.Error()
			return resp, fmt.Errorf("fetcher could not write %s: %w", pa, err)
		}
	}
	// directory modes other than the default are applied last, deepest first
	for i := limit - 1; i >= 0; i-- {
		if fl := raw[paths[i]]; fl.Kind == "dir" && fl.Mode != 0 && fl.Mode != 0o755 {
			os.Chmod(filepath.Join(targetDir, paths[i]), os.FileMode(fl.Mode))
		}
	}
	if c.Fault == "torn" {
		c.Result = "torn"
		return resp, errPeer
	}
	if c.Fault == "torn-timeout" {
		// part of the package was written, then the transfer timed out
		c.Result = "torn-timeout"
		return resp, errPeerTimeout
	}
	if c.Fault == "cancel-after" {
		// the caller cancels right after this download completed: nothing is in flight to report it
		if cf := r.cancels[c.Task]; cf != nil {
			cf()
		}
	}
	if p.Commit != "" {
		resp.PackageMeta = sourcebundle.PackageMetaWithGitMetadata(p.Commit, p.Msg)
	} else if p.BlankMeta {
		resp.PackageMeta = sourcebundle.PackageMetaWithGitMetadata("", "")
	}
	c.Result = "ok"
	return resp, nil
}

// ---- registry ----

type registry struct{ r *vrun }

func (g registry) ModulePackageVersions(ctx context.Context, pkgAddr regaddr.ModulePackage) (sourcebundle.ModulePackageVersionsResponse, error) {
	r := g.r
	var resp sourcebundle.ModulePackageVersionsResponse
	c := r.call("versions", pkgAddr.String())
	ri := -1
	for i, a := range r.regAddr {
		if a == pkgAddr {
			ri = i
		}
	}
	if ri < 0 {
		c.Result = "unknown"
		return resp, fmt.Errorf("no such registry package %s", pkgAddr)
	}
	switch c.Fault {
	case "err":
		c.Result = "err"
		return resp, errPeer
	case "empty":
		c.Result = "empty"
		return resp, nil
	}
	vs := append([]bw.RegVer{}, r.sc.Regs[ri].Versions...)
	if r.va.PermSalt != 0 {
		simkit.Shuffle(simkit.NewRNG(r.va.PermSalt, "versions/"+pkgAddr.String()), vs)
	}
	for _, rv := range vs {
		v, err := versions.ParseVersion(rv.V)
		if err != nil {
			continue
		}
		info := sourcebundle.ModulePackageInfo{Version: v}
		if rv.DepReason != "" || rv.DepLink != "" {
			info.Deprecation = &sourcebundle.ModulePackageVersionDeprecation{Reason: rv.DepReason, Link: rv.DepLink}
		}
		resp.Versions = append(resp.Versions, info)
	}
	c.Result = "ok"
	return resp, nil
}

func (g registry) ModulePackageSourceAddr(ctx context.Context, pkgAddr regaddr.ModulePackage, version versions.Version) (sourcebundle.ModulePackageSourceAddrResponse, error) {
	r := g.r
	var resp sourcebundle.ModulePackageSourceAddrResponse
	c := r.call("source", pkgAddr.String()+"@"+version.String())
	if c.Fault == "err" {
		c.Result = "err"
		return resp, errPeer
	}
	for i, a := range r.regAddr {
		if a != pkgAddr {
			continue
		}
		for _, rv := range r.sc.Regs[i].Versions {
			v, err := versions.ParseVersion(rv.V)
			if err == nil && v == version {
				src, err := parseRemoteMaybeMade(rv.Source)
				if err != nil {
					c.Result = "bad-source"
					return resp, err
				}
				resp.SourceAddr = src
				c.Result = "ok"
				return resp, nil
			}
		}
	}
	c.Result = "unknown"
	return resp, fmt.Errorf("no such version %s of %s", version, pkgAddr)
}

// ---- finders: comparable empty-struct singletons, as the interface demands ----

type finderF1 struct{}
type finderF2 struct{}

func (finderF1) FindDependencies(fsys fs.FS, subPath string, deps *sourcebundle.Dependencies) sourcebundle.Diagnostics {
	return cur.find("F1", fsys, subPath, deps)
}
func (finderF2) FindDependencies(fsys fs.FS, subPath string, deps *sourcebundle.Dependencies) sourcebundle.Diagnostics {
	return cur.find("F2", fsys, subPath, deps)
}

func finderByName(n string) sourcebundle.DependencyFinder {
	if n == "F2" {
		return finderF2{}
	}
	return finderF1{}
}

type simDiag struct {
	sev       sourcebundle.DiagSeverity
	id        string
	file, ctx string
}

func (d simDiag) Severity() sourcebundle.DiagSeverity { return d.sev }
func (d simDiag) Description() sourcebundle.DiagDescription {
	return sourcebundle.DiagDescription{Summary: "sim " + d.id, Detail: "detail of " + d.id}
}
func (d simDiag) Source() sourcebundle.DiagSource {
	var s sourcebundle.DiagSource
	if d.file != "" {
		s.Subject = &sourcebundle.SourceRange{Filename: d.file, Start: sourcebundle.SourcePos{Line: 1, Column: 1}, End: sourcebundle.SourcePos{Line: 1, Column: 5, Byte: 4}}
	}
	if d.ctx != "" {
		s.Context = &sourcebundle.SourceRange{Filename: d.ctx, Start: sourcebundle.SourcePos{Line: 1, Column: 1}, End: sourcebundle.SourcePos{Line: 2, Column: 1, Byte: 9}}
	}
	return s
}
func (d simDiag) ExtraInfo() interface{} { return "extra:" + d.id }

func (r *vrun) find(name string, fsys fs.FS, subPath string, deps *sourcebundle.Dependencies) sourcebundle.Diagnostics {
	dir := filepath.Base(fmt.Sprint(fsys)) // os.DirFS prints as its directory
	c := r.call("find", dir+"|"+subPath+"|"+name)
	var diags sourcebundle.Diagnostics
	if c.Fault == "err-diag" {
		d := simDiag{sev: sourcebundle.DiagError, id: fmt.Sprintf("fault-find-%d", c.N)}
		r.emitted = append(r.emitted, emitted{ID: d.id, Sev: "E", Task: c.Task, Seq: c.Seq, Pkg: -1, Dir: dir})
		diags = append(diags, d)
	}
	b, err := fs.ReadFile(fsys, path.Join(subPath, depsFileName(name)))
	if err != nil {
		c.Result = "no-deps-file"
		return diags
	}
	type decl struct{ kind, addr, constr, finder string }
	var decls []decl
	nDeclared, firstID := 0, ""
	twice := false
	for _, line := range strings.Split(string(b), "\n") {
		f := strings.Split(line, "\t")
		switch f[0] {
		case "dep":
			if len(f) >= 5 {
				decls = append(decls, decl{f[1], f[2], f[3], f[4]})
			}
		case "diag":
			if len(f) >= 5 {
				sev := sourcebundle.DiagWarning
				if f[1] == "E" {
					sev = sourcebundle.DiagError
				}
				d := simDiag{sev: sev, id: f[2], file: f[3], ctx: f[4]}
				nDeclared++
				if firstID == "" {
					firstID = d.id
				}
				r.emitted = append(r.emitted, emitted{ID: d.id, Sev: f[1], File: f[3], Ctx: f[4], Task: c.Task, Seq: c.Seq, Pkg: -1, Dir: dir})
				diags = append(diags, d)
			}
		case "twice":
			twice = true
		case "parse":
			if len(f) >= 3 {
				r.hostileParse(f[1], f[2])
			}
		}
	}
	if r.va.PermSalt != 0 {
		simkit.Shuffle(simkit.NewRNG(r.va.PermSalt, "deps/"+c.Key), decls)
	}
	if twice && len(decls) > 0 {
		decls = append(decls, decls[0])
	}
	for _, d := range decls {
		fd := finderByName(d.finder)
		switch d.kind {
		case "local":
			a, err := sourceaddrs.ParseLocalSource(d.addr)
			if err != nil {
				diags = append(diags, simDiag{sev: sourcebundle.DiagError, id: "bad-local:" + d.addr})
				continue
			}
			deps.AddLocalSource(a, fd)
		case "remote":
			a, err := parseRemoteMaybeMade(d.addr)
			if err != nil {
				diags = append(diags, simDiag{sev: sourcebundle.DiagError, id: "bad-remote:" + d.addr})
				continue
			}
			deps.AddRemoteSource(a, fd)
		case "registry":
			a, err := sourceaddrs.ParseRegistrySource(d.addr)
			if err != nil {
				diags = append(diags, simDiag{sev: sourcebundle.DiagError, id: "bad-registry:" + d.addr})
				continue
			}
			set, err := parseConstr(d.constr)
			if err != nil {
				diags = append(diags, simDiag{sev: sourcebundle.DiagError, id: "bad-constraint:" + d.constr})
				continue
			}
			deps.AddRegistrySource(a, set, fd)
		}
	}
	c.Result = fmt.Sprintf("deps=%d diags=%d", len(decls), len(diags))
	// a finder may keep its diagnostics as static values: the same declared warnings come back
	// as the same slice, backing array included, every time
	if len(diags) > 0 && len(diags) == nDeclared && strings.HasPrefix(firstID, "diag-shared-") {
		if prev, ok := r.staticDiags[firstID]; ok && len(prev) == len(diags) {
			r.out.Probe("finder-returned-its-static-diagnostics-again")
			return prev
		}
		if r.staticDiags == nil {
			r.staticDiags = map[string]sourcebundle.Diagnostics{}
		}
		r.staticDiags[firstID] = diags
	}
	return diags
}

// hostileParse hands a peer-supplied string to one public parser and prints
// the result back (C19: no entry point may panic).
func (r *vrun) hostileParse(kind, s string) {
	defer func() {
		if x := recover(); x != nil {
			r.parserPanics = append(r.parserPanics, fmt.Sprintf("%s(%q): %v", kind, s, x))
		}
	}()
	r.out.Probe("parser:" + kind)
	switch kind {
	case "source":
		if a, err := sourceaddrs.ParseSource(s); err == nil {
			_ = a.String()
			_ = sourceaddrs.SourceFilename(a)
		}
	case "final":
		if a, err := sourceaddrs.ParseFinalSource(s); err == nil {
			_ = a.String()
			_ = sourceaddrs.FinalSourceFilename(a)
		}
	case "local":
		if a, err := sourceaddrs.ParseLocalSource(s); err == nil {
			_ = a.String()
		}
	case "remote":
		if a, err := sourceaddrs.ParseRemoteSource(s); err == nil {
			_ = a.String()
			_ = a.Package().String()
		}
	case "remotepkg":
		if a, err := sourceaddrs.ParseRemotePackage(s); err == nil {
			_ = a.String()
		}
	case "registry":
		if a, err := sourceaddrs.ParseRegistrySource(s); err == nil {
			_ = a.String()
		}
	case "registrypkg":
		if a, err := sourceaddrs.ParseRegistryPackage(s); err == nil {
			_ = a.String()
		}
	case "finalregistry":
		if a, err := sourceaddrs.ParseFinalRegistrySource(s); err == nil {
			_ = a.String()
		}
	}
}

// ---- tracer ----

// startCtx is what a start callback hands back as the context of the request. In the
// "foreign-ctx" variant it carries another tracer (as a context that went through a
// second instrumentation layer would): the outcome still belongs to the tracer that saw
// the start.
func (r *vrun) startCtx(ctx context.Context) context.Context {
	if r.va.Tracer != "foreign-ctx" {
		return ctx
	}
	r.out.Probe("start-callback-returned-foreign-context")
	other := &sourcebundle.BuildTracer{}
	return other.OnContext(ctx)
}

func (r *vrun) tracer() *sourcebundle.BuildTracer {
	ev := func(kind, key string) {
		r.trace = append(r.trace, TraceEv{Seq: r.log.Steps + 1, Task: r.task(), Kind: kind, Key: key})
		r.log.Add(r.task(), "trace-"+kind, key)
		if r.probe {
			r.crashProbe("trace-"+kind, len(r.trace))
		}
	}
	tr := &sourcebundle.BuildTracer{
		RegistryPackageVersionsStart: func(ctx context.Context, p regaddr.ModulePackage) context.Context {
			ev("versions-start", p.String())
			return r.startCtx(ctx)
		},
		RegistryPackageVersionsSuccess: func(ctx context.Context, p regaddr.ModulePackage, vs versions.List) {
			ev("versions-success", p.String())
		},
		RegistryPackageVersionsFailure: func(ctx context.Context, p regaddr.ModulePackage, err error) {
			ev("versions-failure", p.String())
		},
		RegistryPackageVersionsAlready: func(ctx context.Context, p regaddr.ModulePackage, vs versions.List) {
			ev("versions-already", p.String())
		},
		RegistryPackageSourceStart: func(ctx context.Context, p regaddr.ModulePackage, v versions.Version) context.Context {
			ev("source-start", p.String()+"@"+v.String())
			return r.startCtx(ctx)
		},
		RegistryPackageSourceSuccess: func(ctx context.Context, p regaddr.ModulePackage, v versions.Version, s sourceaddrs.RemoteSource) {
			ev("source-success", p.String()+"@"+v.String())
		},
		RegistryPackageSourceFailure: func(ctx context.Context, p regaddr.ModulePackage, v versions.Version, err error) {
			ev("source-failure", p.String()+"@"+v.String())
		},
		RegistryPackageSourceAlready: func(ctx context.Context, p regaddr.ModulePackage, v versions.Version, s sourceaddrs.RemoteSource) {
			ev("source-already", p.String()+"@"+v.String())
		},
		RemotePackageDownloadStart: func(ctx context.Context, p sourceaddrs.RemotePackage) context.Context {
			ev("download-start", p.String())
			return r.startCtx(ctx)
		},
		RemotePackageDownloadSuccess: func(ctx context.Context, p sourceaddrs.RemotePackage) {
			ev("download-success", p.String())
		},
		RemotePackageDownloadFailure: func(ctx context.Context, p sourceaddrs.RemotePackage, err error) {
			ev("download-failure", p.String())
		},
		RemotePackageDownloadAlready: func(ctx context.Context, p sourceaddrs.RemotePackage) {
			ev("download-already", p.String())
		},
		Diagnostics: func(ctx context.Context, diags sourcebundle.Diagnostics) {
			for _, d := range diags {
				id := strings.TrimPrefix(d.Description().Summary, "sim ")
				r.diagsSeen[id] = append(r.diagsSeen[id], "tracer|"+diagSig(d))
			}
			ev("diagnostics", fmt.Sprint(len(diags)))
		},
	}
	if r.va.Tracer == "nodiag" {
		tr.Diagnostics = nil
	}
	return tr
}

func diagSig(d sourcebundle.Diagnostic) string {
	s := d.Source()
	sub, ctx := "", ""
	if s.Subject != nil {
		sub = s.Subject.Filename
	}
	if s.Context != nil {
		ctx = s.Context.Filename
	}
	return fmt.Sprintf("%c|%s|%s|%s|%s|%v", d.Severity(), d.Description().Summary, d.Description().Detail, sub, ctx, d.ExtraInfo())
}

// madePrefixes mark an address that the caller (or a peer) does not parse from text but puts
// together with sourceaddrs.MakeRemoteSource from a URL value of its own making: the same
// address as the text after the prefix, in a URL that carries a field printing ignores.
var madePrefixes = []string{"made-forcequery::", "made-omithost::"}

func parseRemoteMaybeMade(text string) (sourceaddrs.RemoteSource, error) {
	for _, pre := range madePrefixes {
		if strings.HasPrefix(text, pre) {
			a, err := sourceaddrs.ParseRemoteSource(text[len(pre):])
			if err != nil {
				return a, err
			}
			u := *a.Package().URL()
			switch pre {
			case "made-forcequery::":
				u.ForceQuery = true
			case "made-omithost::":
				u.OmitHost = true
			}
			return sourceaddrs.MakeRemoteSource(a.Package().SourceType(), &u, a.SubPath())
		}
	}
	return sourceaddrs.ParseRemoteSource(text)
}
