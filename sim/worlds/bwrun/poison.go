package bwrun

import (
	"fmt"
	"time"

	"github.com/anishathalye/porcupine"
)

type pIn struct{ Kind string }
type pOut struct{ Res string }

// poisonModel is the sequential specification of "an error diagnostic poisons
// the builder": state false = usable, true = dead (poisoned or closed).
var poisonModel = porcupine.Model{
	Init: func() interface{} { return false },
	Step: func(state, input, output interface{}) (bool, interface{}) {
		dead := state.(bool)
		in := input.(pIn)
		res := output.(pOut).Res
		if dead {
			switch in.Kind {
			case "add":
				return res == "refused", true
			default: // close
				return res == "refused" || res == "closeerr", true
			}
		}
		switch in.Kind {
		case "add":
			switch res {
			case "ok":
				return true, false
			case "err":
				return true, true
			}
			return false, dead
		default:
			switch res {
			case "bundle", "closeerr":
				return true, true
			}
			return false, dead
		}
	},
	DescribeOperation: func(input, output interface{}) string {
		return fmt.Sprintf("%s -> %s", input.(pIn).Kind, output.(pOut).Res)
	},
}

func poisonHistory(res *vresult) []porcupine.Operation {
	var ops []porcupine.Operation
	for _, a := range res.adds {
		o := "ok"
		switch {
		case a.Refused:
			o = "refused"
		case a.HasErr:
			o = "err"
		}
		ops = append(ops, porcupine.Operation{ClientId: a.Task, Input: pIn{"add"}, Call: int64(a.Invoke), Output: pOut{o}, Return: int64(a.Return)})
	}
	if res.closeRan {
		o := "bundle"
		switch {
		case res.closePanic != "":
			o = "refused"
		case res.bundle == nil:
			o = "closeerr"
		}
		ops = append(ops, porcupine.Operation{ClientId: 99, Input: pIn{"close"}, Call: int64(res.closeInvoke), Output: pOut{o}, Return: int64(res.closeReturn)})
	}
	return ops
}

// checkPoisonHistory: Illegal is a violation; Unknown (timeout) is inconclusive
// and never reported.
func checkPoisonHistory(ops []porcupine.Operation) (bool, string) {
	if len(ops) == 0 {
		return true, ""
	}
	r := porcupine.CheckOperationsTimeout(poisonModel, ops, 10*time.Second)
	if r == porcupine.Illegal {
		s := "history of Add/Close calls is not linearizable against 'an error diagnostic poisons the builder':"
		for _, o := range ops {
			s += fmt.Sprintf(" [c%d %d-%d %s->%s]", o.ClientId, o.Call, o.Return, o.Input.(pIn).Kind, o.Output.(pOut).Res)
		}
		return false, s
	}
	return true, ""
}
