package bwrun

import (
	"bytes"
	"encoding/json"
	"fmt"
	"io"
	"os"
	"path/filepath"
	"sort"
	"strings"
	"syscall"
	"time"

	"github.com/hashicorp/go-slug/sourceaddrs"
	"github.com/hashicorp/go-slug/sourcebundle"
	"golang.org/x/sys/unix"

	"verif/sim/simkit"
	"verif/sim/worlds/bw"
	"verif/sim/worlds/uwrun"
)

// fingerprint renders every accessor of a bundle, lookups relative to its root.
func fingerprint(b *sourcebundle.Bundle, root string, sc *bw.Scenario, cl *closure) []string {
	var fp []string
	rel := func(p string, err error) string {
		if err != nil {
			return "ERR"
		}
		r, e := filepath.Rel(root, p)
		if e != nil {
			return "UNREL:" + p
		}
		return r
	}
	for _, p := range b.RemotePackages() {
		m := b.RemotePackageMeta(p)
		ms := "nil"
		if m != nil {
			ms = fmt.Sprintf("%q/%q", m.GitCommitID(), m.GitCommitMessage())
		}
		fp = append(fp, fmt.Sprintf("pkg %s meta=%s dir=%s", p, ms, rel(b.LocalPathForRemoteSource(p.SourceAddr("")))))
		fp = append(fp, fmt.Sprintf("pkg %s sub=%s", p, rel(b.LocalPathForRemoteSource(p.SourceAddr("m1/sub")))))
		// the reverse direction, asked with paths spelled from the root the bundle was opened by
		if lp, err := b.LocalPathForRemoteSource(p.SourceAddr("")); err == nil {
			if r, e := filepath.Rel(root, lp); e == nil && !strings.HasPrefix(r, "..") {
				for _, sub := range []string{"", "/main.tf", "/m1/x.tf"} {
					src, err := b.SourceForLocalPath(root + "/" + r + sub)
					if err != nil {
						fp = append(fp, fmt.Sprintf("rev %s%s => ERR", r, sub))
					} else {
						fp = append(fp, fmt.Sprintf("rev %s%s => %s", r, sub, src))
					}
				}
			}
		}
	}
	for _, rp := range b.RegistryPackages() {
		for _, v := range b.RegistryPackageVersions(rp) {
			src, ok := b.RegistryPackageSourceAddr(rp, v)
			dep := b.RegistryPackageVersionDeprecation(rp, v)
			ds := "nil"
			if dep != nil {
				ds = fmt.Sprintf("%q/%q/%q", dep.Version, dep.Reason, dep.Link)
			}
			ra, _ := sourceaddrs.ParseRegistrySource(rp.String())
			ra2, _ := sourceaddrs.ParseRegistrySource(rp.String() + "//m1")
			fp = append(fp, fmt.Sprintf("reg %s %s src=%s(%v) dep=%s path=%s subpath=%s", rp, v, src, ok, ds,
				rel(b.LocalPathForRegistrySource(ra, v)), rel(b.LocalPathForRegistrySource(ra2, v))))
		}
	}
	for _, rp := range b.RegistryPackages() {
		// the order of the version list is part of the answer
		fp = append(fp, fmt.Sprintf("order %s %v", rp, b.RegistryPackageVersions(rp)))
	}
	cs, _ := b.ChecksumV1()
	fp = append(fp, "checksum "+cs)
	if cl != nil {
		for _, pr := range cl.pairs {
			src, err := sourceaddrs.ParseRemoteSource(sc.Pkgs[pr.Pkg].Source(pr.Sub))
			if err == nil {
				fp = append(fp, fmt.Sprintf("lookup %s => %s", src, rel(b.LocalPathForRemoteSource(src))))
			}
		}
	}
	sort.Strings(fp)
	return fp
}

func diffLists(a, b []string) string {
	am := map[string]bool{}
	for _, x := range a {
		am[x] = true
	}
	bm := map[string]bool{}
	for _, x := range b {
		bm[x] = true
	}
	var d []string
	for _, x := range a {
		if !bm[x] {
			d = append(d, "-"+x)
		}
	}
	for _, x := range b {
		if !am[x] {
			d = append(d, "+"+x)
		}
	}
	if len(d) > 6 {
		d = d[:6]
	}
	return strings.Join(d, " ; ")
}

// normaliseTimes pins the modification times of everything under root.
func normaliseTimes(root string) {
	var paths []string
	filepath.Walk(root, func(p string, info os.FileInfo, err error) error {
		if err == nil {
			paths = append(paths, p)
		}
		return nil
	})
	sort.Strings(paths)
	for i := len(paths) - 1; i >= 0; i-- {
		ts := []unix.Timespec{{Sec: 1400000000 + int64(i)}, {Sec: 1400000000 + int64(i)}}
		unix.UtimesNanoAt(unix.AT_FDCWD, paths[i], ts, unix.AT_SYMLINK_NOFOLLOW)
	}
}

// compareTrees: the two directory trees are equal in the sense of C02.
func compareTrees(a, b string, out *simkit.Outcome, what string) {
	compareTreesAs(a, b, out, what, "C09")
}

func compareTreesAs(a, b string, out *simkit.Outcome, what, prop string) {
	ta, tb := uwrun.ListTree(a), uwrun.ListTree(b)
	var ps []string
	for p := range ta {
		ps = append(ps, p)
	}
	sort.Strings(ps)
	for _, p := range ps {
		x := ta[p]
		y, ok := tb[p]
		if !ok {
			cls := "missing"
			if x.Kind == 'd' {
				cls = "missing-dir"
			}
			out.Violate(prop, "files-differ", cls, fmt.Sprintf("%s: %s (%c) is missing", what, p, x.Kind))
			continue
		}
		if x.Kind != y.Kind {
			out.Violate(prop, "files-differ", "kind", fmt.Sprintf("%s: %s is %c, original %c", what, p, y.Kind, x.Kind))
			continue
		}
		switch x.Kind {
		case 'f':
			if string(x.Body) != string(y.Body) {
				out.Violate(prop, "files-differ", "content", fmt.Sprintf("%s: %s content differs", what, p))
			}
			fallthrough
		case 'd':
			if x.Mode != y.Mode {
				out.Violate(prop, "files-differ", "mode", fmt.Sprintf("%s: %s mode %o, original %o", what, p, y.Mode, x.Mode))
			}
			want := time.Unix(0, x.MtimeNs).Round(time.Second).UnixNano()
			if y.MtimeNs != want {
				out.Violate(prop, "files-differ", "mtime", fmt.Sprintf("%s: %s mtime %d, original %d (rounded %d)", what, p, y.MtimeNs, x.MtimeNs, want))
			}
		case 'l':
			if x.Target != y.Target {
				out.Violate(prop, "files-differ", "target", fmt.Sprintf("%s: link %s -> %q, original -> %q", what, p, y.Target, x.Target))
			}
		}
	}
	for p := range tb {
		if _, ok := ta[p]; !ok {
			out.Violate(prop, "files-differ", "extra", fmt.Sprintf("%s: %s is not in the original bundle", what, p))
		}
	}
}

func runPostOps(sc *bw.Scenario, book *simkit.TapeBook, w *world, cl *closure, res *vresult, log *simkit.Log, out *simkit.Outcome) {
	if res.bundle == nil || res.anyErr || len(sc.Post) == 0 || res.closedInTask {
		return
	}
	root := res.r.target
	orig := fingerprint(res.bundle, root, sc, cl)
	for _, rp := range res.bundle.RegistryPackages() {
		first := fmt.Sprint(res.bundle.RegistryPackageVersions(rp))
		for i := 0; i < 8; i++ {
			if again := fmt.Sprint(res.bundle.RegistryPackageVersions(rp)); again != first {
				for _, pr := range []string{"C09", "C13"} {
					out.Violate(pr, "version-list-order", "unstable", fmt.Sprintf("RegistryPackageVersions(%s) answers %s in one call and %s in another on the same bundle", rp, first, again))
				}
				break
			}
		}
	}
	for _, op := range sc.Post {
		switch op {
		case "reopen":
			// a restart: only the directory survives
			b2, err := sourcebundle.OpenDir(root)
			if err != nil {
				out.Violate("C09", "reopen-fails", "open", fmt.Sprintf("OpenDir on the finished bundle fails: %v", err))
				break
			}
			if d := diffLists(orig, fingerprint(b2, root, sc, cl)); d != "" {
				out.Violate("C09", "reopen-differs", "accessors", "re-opened bundle differs: "+d)
			}
			// the same directory reached through another spelling and from another working directory
			os.Chdir(filepath.Dir(root))
			b3, err := sourcebundle.OpenDir("./" + filepath.Base(root) + "/")
			os.Chdir("/cwd")
			if err != nil {
				out.Violate("C09", "reopen-fails", "open-relative", fmt.Sprintf("OpenDir with a relative spelling fails: %v", err))
			} else if d := diffLists(orig, fingerprint(b3, root, sc, cl)); d != "" {
				out.Violate("C09", "reopen-differs", "accessors-relative", "bundle re-opened by a relative path differs: "+d)
			}
			// the directory is what is opened, each time: a copy is opened, its manifest rewritten in
			// place (one letter of a commit message; same length, same modification time), and
			// opened again - the second bundle says what the directory says now
			if i := bytes.Index(res.manifest, []byte(`"git_commit_message": "`)); i >= 0 {
				j := i + len(`"git_commit_message": "`)
				if j < len(res.manifest) && res.manifest[j] >= 'a' && res.manifest[j] <= 'z' {
					cp := "/w/reopen-copy"
					os.RemoveAll(cp)
					copyTree(root, cp)
					stamp := time.Unix(1400000000, 0)
					os.Chtimes(cp+"/terraform-sources.json", stamp, stamp)
					if b5, err := sourcebundle.OpenDir(cp); err == nil {
						before := fingerprint(b5, cp, sc, cl)
						m2 := append([]byte{}, res.manifest...)
						m2[j] = 'Z'
						os.WriteFile(cp+"/terraform-sources.json", m2, 0o644)
						os.Chtimes(cp+"/terraform-sources.json", stamp, stamp)
						if b6, err := sourcebundle.OpenDir(cp); err == nil {
							if after := fingerprint(b6, cp, sc, cl); strings.Join(after, "\n") == strings.Join(before, "\n") {
								out.Violate("C09", "reopen-differs", "stale-after-rewrite", "a bundle directory whose manifest was rewritten in place (same size, same modification time) re-opens as the bundle it held before")
							} else {
								out.Probe("reopened-after-rewrite")
							}
						}
					}
					simkit.ForceRemoveAll(cp)
				}
			}
			if sc.LinkRoots {
				// the same directory reached through a symbolic link: the caller's root is the link
				lnk := "/w/bundle-link"
				if sc.Seed%2 == 1 {
					// a name outside Latin-1
					lnk = "/w/\u0441\u0432\u044f\u0437\u043a\u0430"
				}
				os.Remove(lnk)
				if os.Symlink(root, lnk) == nil {
					b4, err := sourcebundle.OpenDir(lnk)
					if err != nil {
						out.Violate("C09", "reopen-fails", "open-through-link", fmt.Sprintf("OpenDir by way of a symlink to the bundle directory fails: %v", err))
					} else {
						if d := diffLists(orig, fingerprint(b4, lnk, sc, cl)); d != "" {
							out.Violate("C09", "reopen-differs", "accessors-through-link", "bundle re-opened by way of a symlink to its directory answers differently relative to the root it was opened by: "+d)
						}
						checkLinkedRoot(b4, lnk, out, "C18", "bundle opened by way of a symlink")
						if err := b4.WriteArchive(io.Discard); err != nil {
							out.Violate("C09", "archive-fails", "write-through-link", fmt.Sprintf("WriteArchive of a bundle opened by way of the symlink %s fails: %v", lnk, err))
						}
					}
					os.Remove(lnk)
					out.Probe("reopened-through-link")
				}
			}
			if sc.LinkRoots && sc.Seed%2 == 1 {
				// the bundle directory copied to a place whose name lies outside Latin-1
				cp := "/w/\u043a\u043e\u043f\u0438\u044f"
				simkit.ForceRemoveAll(cp)
				copyTree(root, cp)
				if b5, err := sourcebundle.OpenDir(cp); err != nil {
					out.Violate("C09", "reopen-fails", "open-copy", fmt.Sprintf("OpenDir of a copy of the bundle directory named %s fails: %v", cp, err))
				} else {
					if d := diffLists(orig, fingerprint(b5, cp, sc, cl)); d != "" {
						out.Violate("C09", "reopen-differs", "accessors-copy", "a copy of the bundle directory under another name answers differently: "+d)
					}
					if err := b5.WriteArchive(io.Discard); err != nil {
						out.Violate("C09", "archive-fails", "write-copy", fmt.Sprintf("WriteArchive of a copy of the bundle directory named %s fails: %v", cp, err))
					}
				}
				simkit.ForceRemoveAll(cp)
				out.Probe("reopened-as-a-copy")
			}
			out.Probe("reopened")
		case "ship":
			runShip(sc, book, cl, res, orig, log, out, sc.PipeBreak, "/w/extracted")
			if sc.PipeBreak > 0 {
				// the caller tries again over a healthy connection: what the failed attempt
				// left behind anywhere in the process must not show in this one
				runShip(sc, book, cl, res, orig, log, out, 0, "/w/extracted-retry")
				out.Probe("shipped-again-after-broken-pipe")
			}
		case "corrupt":
			runCorrupt(sc, cl, res, out)
		case "torn":
			runTorn(res, out)
		}
	}
}

// runShip streams WriteArchive into ExtractArchive as two scheduled tasks over a SimPipe.
func runShip(sc *bw.Scenario, book *simkit.TapeBook, cl *closure, res *vresult, orig []string, log *simkit.Log, out *simkit.Outcome, breakAt int, dst string) {
	root := res.r.target
	os.MkdirAll(dst, 0o755)
	realDst := dst
	if sc.LinkRoots {
		// the caller names the destination by way of a symbolic link
		os.Remove("/w/extracted-link")
		if os.Symlink(filepath.Base(dst), "/w/extracted-link") == nil {
			dst = "/w/extracted-link"
			defer os.Remove("/w/extracted-link")
		}
	}
	fpRoot := ""
	if !sc.LinkRoots && sc.Seed%3 == 0 {
		// the caller names the destination relative to its working directory, climbing first
		os.MkdirAll("/w/elsewhere/deep", 0o755)
		if os.Chdir("/w/elsewhere/deep") == nil {
			defer os.Chdir("/cwd")
			fpRoot = dst
			dst = "../.." + strings.TrimPrefix(dst, "/w")
			out.Probe("extract-into-relative-destination")
		}
	}
	// What the builder and the fetcher peer created carries wall-clock times, which end up in
	// the archive headers and so in the length of the compressed stream. They are data of
	// this run, not clock readings of the code under test: pin them, so that the same
	// scenario ships byte-identical archives (and a breaking pipe breaks at the same place).
	normaliseTimes(root)
	sched := book.NewSched(log, sc.Seed, "bw/ship", "random")
	pipe := simkit.NewSimPipe(sc.PipeCap, sched, log)
	pipe.BreakAt = breakAt
	var werr, rerr error
	var wpan, rpan interface{}
	var b2 *sourcebundle.Bundle
	sched.Go("write-archive", func(tk *simkit.Task) {
		log.Add(tk.ID, "op-start", "WriteArchive")
		func() {
			defer func() { wpan = recover() }()
			werr = res.bundle.WriteArchive(pipe.Writer())
		}()
		pipe.Writer().Close()
		log.Add(tk.ID, "op-end", fmt.Sprintf("WriteArchive err=%v", werr))
	})
	sched.Go("extract-archive", func(tk *simkit.Task) {
		log.Add(tk.ID, "op-start", "ExtractArchive")
		rd := pipe.Reader()
		func() {
			defer func() { rpan = recover() }()
			b2, rerr = sourcebundle.ExtractArchive(rd, dst)
		}()
		io.Copy(io.Discard, rd)
		pipe.CloseRead()
		log.Add(tk.ID, "op-end", fmt.Sprintf("ExtractArchive err=%v", rerr))
	})
	if err := sched.Run(); err != nil {
		out.Violate("C19", "ship-sched", "deadlock", "WriteArchive/ExtractArchive over the pipe: "+err.Error())
		return
	}
	out.Decisions += sched.Decisions
	if wpan != nil || rpan != nil {
		out.Violate("C19", "ship-panic", "panic", fmt.Sprintf("WriteArchive panic=%v ExtractArchive panic=%v", wpan, rpan))
		return
	}
	if pipe.Fired["break"] > 0 {
		// the destination failed under WriteArchive: that must be reported, and the receiving
		// side must not take the partial stream for a bundle
		out.Fault("pipe/break", 1)
		if werr == nil {
			for _, prop := range []string{"C09", "C12"} {
				out.Violate(prop, "archive-write-error-swallowed", "swallowed", fmt.Sprintf("the pipe broke after %d bytes under WriteArchive, which returned nil", breakAt))
			}
		}
		if rerr == nil && b2 != nil {
			// legitimate only if the break came after everything the receiver needs
			// (behind the end-of-archive marker): then what arrived must be complete
			root2 := dst
			if fpRoot != "" {
				root2 = fpRoot
			}
			if d := diffLists(orig, fingerprint(b2, root2, sc, cl)); d != "" {
				out.Violate("C12", "extract-ok-on-broken-stream", "partial", fmt.Sprintf("the pipe broke after %d bytes, ExtractArchive returned a bundle, and it differs: %s", breakAt, d))
			}
			compareTreesAs(root, realDst, out, "archive extracted from a broken pipe", "C12")
		}
		return
	}
	if werr != nil {
		out.Violate("C09", "archive-fails", "write", fmt.Sprintf("WriteArchive of a finished bundle fails: %v", werr))
		return
	}
	if rerr != nil {
		out.Violate("C09", "archive-fails", "extract", fmt.Sprintf("ExtractArchive of WriteArchive's output fails: %v", rerr))
		return
	}
	if fpRoot == "" {
		fpRoot = dst
	}
	if d := diffLists(orig, fingerprint(b2, fpRoot, sc, cl)); d != "" {
		out.Violate("C09", "extract-differs", "accessors", "extracted bundle differs: "+d)
	}
	compareTrees(root, realDst, out, "extracted archive")
	if dst != realDst && sc.LinkRoots {
		checkLinkedRoot(b2, dst, out, "C09", "archive extracted into a directory named by way of a symlink")
		out.Probe("shipped-through-link")
	}
	out.Probe("shipped")
}

// checkLinkedRoot: a bundle whose root the caller spelled through a symlink
// answers with paths below that spelling, and translates them back.
func checkLinkedRoot(b *sourcebundle.Bundle, root string, out *simkit.Outcome, prop, what string) {
	for _, p := range b.RemotePackages() {
		lp, err := b.LocalPathForRemoteSource(p.SourceAddr(""))
		if err != nil {
			continue
		}
		if !simkit.Under(filepath.Clean(lp), root) {
			out.Violate(prop, "lookup-leaves-root", "root-through-link", fmt.Sprintf("%s %s: lookup of %s answers %s, not below the root the caller gave", what, root, p, lp))
			continue
		}
		if _, err := b.SourceForLocalPath(lp + "/main.tf"); err != nil {
			out.Violate(prop, "reverse-lookup", "root-through-link", fmt.Sprintf("%s %s: path %s/main.tf, which the bundle itself handed out, is reported as not belonging to it: %v", what, root, lp, err))
		}
	}
}

// runTorn: every proper prefix of the manifest must make OpenDir fail (C12).
func runTorn(res *vresult, out *simkit.Outcome) {
	dir := "/w/torn"
	os.MkdirAll(dir, 0o755)
	m := res.manifest
	for n := 0; n < len(m); n++ {
		os.WriteFile(dir+"/terraform-sources.json", m[:n], 0o644)
		if _, err := sourcebundle.OpenDir(dir); err == nil {
			out.Violate("C12", "torn-manifest-opens", "prefix", fmt.Sprintf("a manifest torn at %d of %d bytes opens as a bundle", n, len(m)))
			break
		}
	}
	out.Fault("stored/torn-manifest", len(m))
	simkit.ForceRemoveAll(dir)
}

func applyCorruption(m []byte, c bw.Corruption) ([]byte, bool) {
	switch c.Kind {
	case "trunc":
		if len(m) == 0 {
			return m, false
		}
		return m[:c.Off%len(m)], true
	case "flip":
		if len(m) == 0 {
			return m, false
		}
		d := append([]byte{}, m...)
		v := byte(c.Val)
		if v == 0 {
			v = 1
		}
		d[c.Off%len(d)] ^= v
		return d, true
	}
	var doc map[string]interface{}
	if json.Unmarshal(m, &doc) != nil {
		return m, false
	}
	pkgs, _ := doc["packages"].([]interface{})
	regs, _ := doc["registry"].([]interface{})
	switch c.Field {
	case "local":
		if len(pkgs) == 0 {
			return m, false
		}
		pkgs[len(pkgs)-1].(map[string]interface{})["local"] = c.Text
	case "source":
		if len(pkgs) == 0 {
			return m, false
		}
		pkgs[0].(map[string]interface{})["source"] = c.Text
	case "dup":
		if len(pkgs) == 0 {
			return m, false
		}
		cp := map[string]interface{}{}
		for k, v := range pkgs[0].(map[string]interface{}) {
			cp[k] = v
		}
		cp["local"] = "other-dir"
		doc["packages"] = append(pkgs, cp)
	case "format":
		b, _ := json.Marshal(doc)
		s := strings.Replace(string(b), `"terraform_source_bundle":1`, `"terraform_source_bundle":`+c.Text, 1)
		return []byte(s), true
	case "regsource", "version":
		if len(regs) == 0 {
			return m, false
		}
		vs, _ := regs[0].(map[string]interface{})["versions"].(map[string]interface{})
		var keys []string
		for k := range vs {
			keys = append(keys, k)
		}
		sort.Strings(keys)
		if len(keys) == 0 {
			return m, false
		}
		if c.Field == "regsource" {
			vs[keys[0]].(map[string]interface{})["source"] = c.Text
		} else {
			vs[c.Text] = vs[keys[0]]
			delete(vs, keys[0])
		}
	default:
		return m, false
	}
	b, _ := json.MarshalIndent(doc, "", "  ")
	return b, true
}

// checkOpened: whatever the manifest said, a bundle that opened answers only
// with paths inside its root (C18), and no accessor panics (C19).
func checkOpened(b *sourcebundle.Bundle, root string, out *simkit.Outcome, what string) {
	defer func() {
		if x := recover(); x != nil {
			out.Violate("C19", "bundle-accessor-panic", "panic", fmt.Sprintf("%s: accessor panicked: %v", what, x))
		}
	}()
	inside := func(p string, err error, q string) {
		if err != nil {
			return
		}
		if !simkit.Under(filepath.Clean(p), root) || filepath.Clean(p) == root {
			out.Violate("C18", "lookup-leaves-root", "outside", fmt.Sprintf("%s: lookup of %s answers %s, which is not inside the bundle root %s", what, q, p, root))
		}
	}
	for _, p := range b.RemotePackages() {
		lp, err := b.LocalPathForRemoteSource(p.SourceAddr(""))
		inside(lp, err, p.String())
		lp, err = b.LocalPathForRemoteSource(p.SourceAddr("a/b"))
		inside(lp, err, p.String()+"//a/b")
		for _, sub := range []string{"%2e%2e/%2e%2e/secrets", "m%2f..%2f..%2f..%2fsecrets", "cpu%20load.tf"} {
			// a sub-path is taken literally: nothing in it is an escape sequence
			l2, e2 := b.LocalPathForRemoteSource(p.SourceAddr(sub))
			inside(l2, e2, p.String()+"//"+sub)
			if e2 == nil && filepath.Base(l2) != filepath.Base(sub) {
				out.Violate("C18", "lookup-respelled", "unescaped", fmt.Sprintf("%s: lookup of %s//%s answers %s", what, p, sub, l2))
			}
		}
		b.RemotePackageMeta(p)
		if err == nil && simkit.Under(filepath.Clean(lp), root) && filepath.Clean(lp) != root {
			// a path the bundle itself handed out lies in a package directory: it translates back
			if src, rerr := b.SourceForLocalPath(lp); rerr != nil {
				out.Violate("C18", "reverse-lookup", "not-found", fmt.Sprintf("%s: %s is what the bundle answers for %s//a/b, yet it is reported as not belonging to the bundle: %v", what, simkit.CanonString(lp), p, rerr))
			} else if back, berr := b.LocalPathForSource(src); berr != nil || filepath.Clean(back) != filepath.Clean(lp) {
				out.Violate("C18", "reverse-lookup", "not-inverse", fmt.Sprintf("%s: path %s -> %s -> %q (%v)", what, simkit.CanonString(lp), src, back, berr))
			}
		}
	}
	for _, rp := range b.RegistryPackages() {
		for _, v := range b.RegistryPackageVersions(rp) {
			b.RegistryPackageSourceAddr(rp, v)
			b.RegistryPackageVersionDeprecation(rp, v)
			ra, err := sourceaddrs.ParseRegistrySource(rp.String() + "//x")
			if err == nil {
				lp, err := b.LocalPathForRegistrySource(ra, v)
				inside(lp, err, ra.String()+"@"+v.String())
				lp, err = b.LocalPathForSource(ra.Versioned(v))
				inside(lp, err, ra.String()+"@"+v.String())
			}
		}
	}
	b.ChecksumV1()
	out.Probe("hostile-manifest-opened")
}

func runCorrupt(sc *bw.Scenario, cl *closure, res *vresult, out *simkit.Outcome) {
	// one directory for all stored-state faults: it is first opened intact, then its
	// manifest is altered in place - where possible keeping size (JSON tolerates trailing
	// white space) and modification time, as a restore from an archive would
	dir := "/w/corrupt"
	os.RemoveAll(dir)
	copyTree(res.r.target, dir)
	os.MkdirAll(dir+"/other-dir", 0o755)
	os.MkdirAll(dir+"/other-dir2", 0o755)
	stamp := time.Unix(1400000000, 0)
	os.Chtimes(dir+"/terraform-sources.json", stamp, stamp)
	if _, err := sourcebundle.OpenDir(dir); err != nil {
		out.Violate("C09", "reopen-fails", "copy", fmt.Sprintf("OpenDir on a copy of the finished bundle fails: %v", err))
		return
	}
	for _, c := range sc.Corrupt {
		m, ok := applyCorruption(res.manifest, c)
		if !ok {
			continue
		}
		if len(m) < len(res.manifest) && c.Kind == "field" {
			m = append(m, bytes.Repeat([]byte(" "), len(res.manifest)-len(m))...)
			out.Probe("corruption-keeps-size-and-mtime")
		}
		os.WriteFile(dir+"/terraform-sources.json", m, 0o644)
		os.Chtimes(dir+"/terraform-sources.json", stamp, stamp)
		out.Fault("stored/"+c.Kind+":"+c.Field, 1)
		var b *sourcebundle.Bundle
		var err error
		var pan interface{}
		func() {
			defer func() { pan = recover() }()
			b, err = sourcebundle.OpenDir(dir)
		}()
		if pan != nil {
			out.Violate("C19", "opendir-panic", "panic", fmt.Sprintf("OpenDir panicked on a corrupted manifest (%+v): %v", c, pan))
			continue
		}
		if err != nil {
			out.Probe("corrupt-manifest-refused")
			continue
		}
		if c.Kind == "field" && c.Field == "local" {
			t := c.Text
			if t == "" || t == "." || t == ".." || strings.Contains(t, "/") {
				// the statement: names with a separator, '.' or '..' are refused
				if t != "" {
					out.Violate("C18", "bad-dirname-accepted", "accepted", fmt.Sprintf("a manifest naming package directory %q opens", t))
				}
			}
		}
		checkOpened(b, dir, out, fmt.Sprintf("manifest corrupted by %+v", c))
		checkReverseOnDisk(b, dir, out, fmt.Sprintf("manifest corrupted by %+v", c))
	}
}

// runSynthetic: hostile manifests and address strings without a build (C18/C19).
func runSynthetic(sc *bw.Scenario, log *simkit.Log, out *simkit.Outcome) {
	r := &vrun{sc: sc, out: out, log: log}
	for _, s := range sc.Strings {
		for _, k := range []string{"source", "final", "local", "remote", "remotepkg", "registry", "registrypkg", "finalregistry"} {
			log.Add(0, "op-start", "parse "+k)
			r.hostileParse(k, s)
		}
	}
	for _, p := range r.parserPanics {
		out.Violate("C19", "parser-panic", "panic", "address parser panicked: "+p)
	}
	if sc.Manifest != nil {
		dir := "/w/synth"
		for _, d := range []string{"pkgdir", "pkgdir0", "pkgdir-old", "pkg", "..cache", "...", "PKGDIR", "Pkg"} {
			os.MkdirAll(dir+"/"+d+"/m1", 0o755)
			os.WriteFile(dir+"/"+d+"/main.tf", []byte(d), 0o644)
		}
		switch *sc.Manifest {
		case "@FIFO@":
			// a named pipe where the manifest should be: opening it must not be waited for
			syscall.Mkfifo(dir+"/terraform-sources.json", 0o644)
		case "@LINK-FIFO@":
			syscall.Mkfifo(dir+"/m.fifo", 0o644)
			os.Symlink("m.fifo", dir+"/terraform-sources.json")
		case "@DIR@":
			os.Mkdir(dir+"/terraform-sources.json", 0o755)
		default:
			os.WriteFile(dir+"/terraform-sources.json", []byte(*sc.Manifest), 0o644)
		}
		log.Add(0, "op-start", "OpenDir synthetic")
		var b *sourcebundle.Bundle
		var err error
		var pan interface{}
		func() {
			defer func() { pan = recover() }()
			b, err = sourcebundle.OpenDir(dir)
		}()
		log.Add(0, "op-end", fmt.Sprintf("OpenDir err=%v panic=%v", err != nil, pan))
		if pan != nil {
			out.Violate("C19", "opendir-panic", "panic", fmt.Sprintf("OpenDir panicked on a hostile manifest: %v", pan))
			return
		}
		if err == nil {
			checkOpened(b, dir, out, "synthetic manifest")
			checkReverseOnDisk(b, dir, out, "synthetic manifest")
			// what a manifest means is a function of its bytes: opened again and again it answers alike
			regAnswers := func(b *sourcebundle.Bundle) string {
				var ls []string
				for _, rp := range b.RegistryPackages() {
					for _, v := range b.RegistryPackageVersions(rp) {
						src, ok := b.RegistryPackageSourceAddr(rp, v)
						dep := b.RegistryPackageVersionDeprecation(rp, v)
						ls = append(ls, fmt.Sprintf("%s@%s => %s %v dep=%v", rp, v, src, ok, dep != nil))
					}
				}
				return strings.Join(ls, " ; ")
			}
			first := regAnswers(b)
			for k := 0; k < 8; k++ {
				if bk, err := sourcebundle.OpenDir(dir); err != nil {
					out.Violate("C18", "open-unstable", "refused-later", fmt.Sprintf("the same manifest, opened again, is refused: %v", err))
					break
				} else if again := regAnswers(bk); again != first {
					out.Violate("C18", "open-unstable", "registry-answers", fmt.Sprintf("the same manifest, opened again, answers differently: %q then %q", first, again))
					break
				}
			}
		} else {
			out.Probe("hostile-manifest-refused")
		}
	}
}

// checkReverseOnDisk: whatever the manifest says, a path that translates to a
// source address translates back to itself, for every directory physically present.
func checkReverseOnDisk(b *sourcebundle.Bundle, root string, out *simkit.Outcome, what string) {
	defer func() {
		if x := recover(); x != nil {
			out.Violate("C19", "bundle-accessor-panic", "panic", fmt.Sprintf("%s: SourceForLocalPath/LocalPathForSource panicked: %v", what, x))
		}
	}()
	ents, _ := os.ReadDir(root)
	// (ReadDir sorts by name: a directory is visited before the ones whose names extend it)
	for _, e := range ents {
		if !e.IsDir() {
			continue
		}
		for _, sub := range []string{"", "main.tf", "m1/main.tf"} {
			lp := root + "/" + e.Name()
			if sub != "" {
				lp += "/" + sub
			}
			src, err := b.SourceForLocalPath(lp)
			if err != nil {
				continue
			}
			back, err := b.LocalPathForSource(src)
			if err != nil || filepath.Clean(back) != filepath.Clean(lp) {
				out.Violate("C18", "reverse-lookup", "not-inverse", fmt.Sprintf("%s: path %s -> %s -> %q (%v)", what, simkit.CanonString(lp), src, back, err))
			}
			out.Probe("reverse-lookup-on-hostile-manifest")
		}
	}
}
