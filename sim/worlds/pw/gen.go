package pw

import (
	"strconv"
	"strings"

	"verif/sim/simkit"
)

var segPool = []string{"a", "b", "c", "d"}
var specialSegs = []string{".git", ".terraform", "modules", "zzz", "f.txt", "g.txt", "a+b", "ab", "aab", " sp", "-d", ".hid", "ü日", "x(y)", "p|q", "..data", "..x", "a-v2", "a.tf", "a\\b", "bs\\", "caf@E9@", "m@FC@ller.tf", "tab\tx", "nl\nx", "._x", "._f.txt", "n #1"}
var fModes = []int{0o644, 0o600, 0o444, 0o400, 0o755, 0o777, 0o640, 0o000, 0o200}
var dModes = []int{0o755, 0o700, 0o555, 0o500, 0o777, 0o750}
var fracs = []int64{0, 400000000, 500000000, 600000000, 499999999, 999999999}

type knobs struct {
	maxNodes      int
	inLinks       bool // in-tree relative links
	absInLinks    bool // in-tree absolute links
	outLinks      bool // out-of-tree links (file, dir, dangling, sibling-prefix)
	hostileLinks  bool // cycles, loops, fifo targets
	fifos         bool
	rules         bool
	metaRules     bool // regex metacharacters in rule patterns
	degenRules    bool // blank / whitespace-only / lone ! lines
	specials      bool // special names
	oddModes      bool
	bigFile       bool
	extBack       bool // links inside ext dirs pointing back into the tree
	safeOut       bool // outside links are limited to kinds that dereferencing can follow
	concShared    bool // several callers share one Packer and pack at the same time (needs files big enough to yield inside)
	viaRootName   bool // in-tree links spelled by way of the source directory's own name (../src/x)
	nestedDeref   bool // an out-of-tree directory that itself contains a link to another out-of-tree directory
	oddDirModes   bool // directories the (unprivileged) user can list but not search, or not read at all
	failedEarlier bool // an earlier Pack on the same Packer fails half-way inside a dereferenced directory
}

// Gen builds the scenario for (seed, profile). Pure.
func Gen(seed uint64, profile string) *Scenario {
	r := simkit.NewRNG(seed, "pw/cfg")
	sc := &Scenario{World: "pw", Profile: profile, Seed: seed, Umask: simkit.Pick(r, []int{0o022, 0o022, 0o000, 0o027, 0o077})}
	if r.Chance(1, 3) {
		sc.UID = 65534
	}
	k := knobs{maxNodes: r.Range(1, 25)}
	if r.Chance(1, 2) {
		k.maxNodes = r.Range(1, 8)
	}
	switch profile {
	case "roundtrip":
		k.inLinks, k.fifos, k.rules, k.specials, k.oddModes, k.bigFile = r.Chance(2, 3), r.Chance(1, 5), r.Chance(1, 3), r.Chance(1, 2), r.Chance(1, 2), r.Chance(1, 10)
		k.concShared = r.Chance(1, 4)
	case "ignore":
		k.rules, k.specials, k.inLinks = true, r.Chance(2, 3), r.Chance(1, 3)
		k.metaRules = r.Chance(1, 4)
		k.outLinks = r.Chance(1, 3)
		k.safeOut = true
	case "links":
		k.inLinks, k.absInLinks, k.outLinks, k.extBack = true, r.Chance(1, 2), r.Chance(3, 4), r.Chance(1, 3)
		k.viaRootName, k.nestedDeref = r.Chance(1, 6), r.Chance(1, 5)
		k.concShared = simkit.NewRNG(seed, "pw/links-conc").Chance(1, 6)
		k.rules, k.specials = r.Chance(1, 4), r.Chance(1, 4)
	case "spell":
		k.failedEarlier = r.Chance(1, 6)
		k.inLinks, k.rules, k.specials, k.oddModes = r.Chance(1, 2), r.Chance(1, 2), r.Chance(1, 3), r.Chance(1, 3)
		k.outLinks = r.Chance(1, 5)
		k.bigFile = r.Chance(1, 3)
	case "meta":
		k.inLinks, k.absInLinks, k.outLinks, k.fifos, k.rules, k.specials, k.oddModes, k.bigFile, k.extBack = r.Chance(1, 2), r.Chance(1, 4), r.Chance(1, 2), r.Chance(1, 4), r.Chance(1, 2), r.Chance(1, 3), r.Chance(1, 3), r.Chance(1, 8), r.Chance(1, 6)
	case "mutate":
		k.inLinks, k.rules, k.specials = r.Chance(1, 3), r.Chance(1, 4), r.Chance(1, 4)
		k.concShared = true // big incompressible files: the walk yields many times inside them
	case "hostile":
		k.inLinks, k.outLinks, k.hostileLinks, k.fifos, k.rules, k.degenRules, k.specials, k.metaRules = r.Chance(1, 2), r.Chance(2, 3), true, r.Chance(1, 2), r.Chance(2, 3), true, r.Chance(1, 2), r.Chance(1, 2)
	default:
		panic("pw: unknown profile " + profile)
	}
	if sc.UID != 0 {
		k.oddModes = false
		k.oddDirModes = profile == "hostile" && r.Chance(1, 2)
	}
	if k.failedEarlier {
		k.outLinks = true
	}
	genTree(simkit.NewRNG(seed, "pw/tree"), sc, &k)
	if k.failedEarlier {
		// a dereferenced directory that is walked first and takes a while to write
		sc.Tree = append(sc.Tree, TNode{Root: "src", Path: "aa-mods", Kind: "link", Mode: 0o777, Target: "../ext/dir", Sec: 1300000005})
		sc.Tree = append(sc.Tree, TNode{Root: "ext", Path: "dir/blob.bin", Kind: "file", Mode: 0o644, Tok: "OUT-8;", Size: 12000, Sec: 1300000006})
	}
	if gr := simkit.NewRNG(seed, "pw/builtin-link"); (profile == "links" || profile == "roundtrip" || profile == "ignore") && gr.Chance(1, 8) {
		// a link that carries the name of a directory the built-in rules speak about and leads
		// to a directory of the tree (a linked checkout): it is a link, not a directory, and
		// everything that sorts after it is still to come
		has, dir := false, ""
		for _, n := range sc.Tree {
			if n.Root == "src" && n.Path == ".git" {
				has = true
			}
			if n.Root == "src" && n.Kind == "dir" && !strings.Contains(n.Path, "/") && dir == "" {
				dir = n.Path
			}
		}
		if !has && dir != "" {
			sc.Tree = append(sc.Tree, TNode{Root: "src", Path: ".git", Kind: "link", Mode: 0o777, Target: dir, Sec: 1300000004})
		}
	}
	if k.concShared {
		for i, n := range []string{"big-1.bin", "big-2.bin"} {
			sc.Tree = append(sc.Tree, TNode{Root: "src", Path: n, Kind: "file", Mode: 0o644, Tok: "IN-big" + strconv.Itoa(i) + ";", Size: 70000 + 20000*i, Sec: 1300000000 + int64(i)})
		}
	}
	if k.rules {
		s := genRules(simkit.NewRNG(seed, "pw/rules"), sc, &k)
		if simkit.NewRNG(seed, "pw/pad-rules").Chance(1, 15) {
			// more than 64 KiB of comment lines before the first rule
			var b strings.Builder
			for i := 0; b.Len() < 66000; i++ {
				b.WriteString("# padding line " + strconv.Itoa(i) + " ........................................\n")
			}
			s = b.String() + s
		}
		sc.Rules = &s
	}
	genRuns(simkit.NewRNG(seed, "pw/runs"), sc, &k, profile)
	return sc
}

func pickSeg(r *simkit.RNG, k *knobs) string {
	if k.specials && r.Chance(1, 20) {
		// names that need PAX/GNU long-name records (over 100 bytes, and paths over 255)
		return strings.Repeat(simkit.Pick(r, []string{"L", "long-", "ü"}), simkit.Pick(r, []int{40, 101, 60})) + simkit.Pick(r, segPool)
	}
	if k.specials && r.Chance(1, 4) {
		return simkit.Pick(r, specialSegs)
	}
	return simkit.Pick(r, segPool)
}

func contains(xs []string, x string) bool {
	for _, y := range xs {
		if y == x {
			return true
		}
	}
	return false
}

func dirOf(p string) string {
	if i := strings.LastIndex(p, "/"); i >= 0 {
		return p[:i]
	}
	return ""
}

// pathClean cleans a relative slash path lexically ("" for the tree root).
func pathClean(p string) string {
	var st []string
	for _, s := range strings.Split(p, "/") {
		switch s {
		case "", ".":
		case "..":
			if len(st) == 0 || st[len(st)-1] == ".." {
				st = append(st, "..")
			} else {
				st = st[:len(st)-1]
			}
		default:
			st = append(st, s)
		}
	}
	return strings.Join(st, "/")
}

func times(r *simkit.RNG, n *TNode) {
	n.Sec = 1200000000 + int64(r.Intn(400000000))
	n.Nsec = simkit.Pick(r, fracs)
	if r.Chance(1, 15) {
		// the epoch, its first second, the 32-bit limits, far future
		n.Sec = simkit.Pick(r, []int64{0, 0, 1, 2147483647, 2147483648, 4102444800})
	}
}

func genTree(r *simkit.RNG, sc *Scenario, k *knobs) {
	dirs := []string{""} // src-relative directories created so far
	used := map[string]bool{"": true, ".terraformignore": true}
	var files []string
	tok := 0
	add := func(n TNode) {
		times(r, &n)
		sc.Tree = append(sc.Tree, n)
		used[n.Root+":"+n.Path] = true
	}
	join := func(d, s string) string {
		if d == "" {
			return s
		}
		return d + "/" + s
	}
	// the world outside the tree (only when something can point at it)
	var extFiles, extDirs []string
	if k.outLinks || k.hostileLinks {
		add(TNode{Root: "ext", Path: "file", Kind: "file", Mode: 0o644, Tok: "OUT-1;"})
		add(TNode{Root: "ext", Path: "dir", Kind: "dir", Mode: 0o755})
		add(TNode{Root: "ext", Path: "dir/f", Kind: "file", Mode: 0o640, Tok: "OUT-2;"})
		add(TNode{Root: "ext", Path: "dir/sub", Kind: "dir", Mode: 0o755})
		add(TNode{Root: "ext", Path: "dir/sub/g", Kind: "file", Mode: 0o600, Tok: "OUT-3;"})
		add(TNode{Root: "ext", Path: "dir/.git", Kind: "dir", Mode: 0o755})
		add(TNode{Root: "ext", Path: "dir/.git/cfg", Kind: "file", Mode: 0o644, Tok: "OUT-4;"})
		add(TNode{Root: "ext", Path: "dir/secret", Kind: "file", Mode: 0o644, Tok: "OUT-5;"})
		add(TNode{Root: "ext", Path: "chain1", Kind: "link", Target: "chain2"})
		add(TNode{Root: "ext", Path: "chain2", Kind: "link", Target: "file"})
		add(TNode{Root: "ext", Path: "dirlink", Kind: "link", Target: "dir"})
		add(TNode{Root: "ext", Path: "emptyd", Kind: "dir", Mode: 0o755})
		add(TNode{Root: "ext", Path: "selfloop", Kind: "link", Target: "selfloop"})
		if k.nestedDeref {
			add(TNode{Root: "ext", Path: "other", Kind: "dir", Mode: 0o755})
			add(TNode{Root: "ext", Path: "other/o.txt", Kind: "file", Mode: 0o644, Tok: "OUT-10;"})
			add(TNode{Root: "ext", Path: "dir/nested", Kind: "link", Target: "../other"})
		}
		extFiles = []string{"file", "dir/f", "chain1"}
		extDirs = []string{"dir", "dirlink", "dir/sub", "emptyd"}
		if simkit.NewRNG(sc.Seed, "pw/ext-far-chain").Chance(1, 3) {
			// chains whose second link sits in another directory than the first and names its
			// target relative to its own place
			add(TNode{Root: "ext", Path: "shared", Kind: "dir", Mode: 0o755})
			add(TNode{Root: "ext", Path: "shared/cur-file", Kind: "link", Target: "../file"})
			add(TNode{Root: "ext", Path: "shared/cur-dir", Kind: "link", Target: "../dir"})
			// ... and one whose relative target, read from a directory of the tree instead, would
			// name something that often exists there
			add(TNode{Root: "ext", Path: "a", Kind: "file", Mode: 0o644, Tok: "OUT-11;"})
			add(TNode{Root: "ext", Path: "shared/cur-a", Kind: "link", Target: "../a"})
			extFiles = append(extFiles, "shared/cur-file", "shared/cur-a", "shared/cur-a")
			extDirs = append(extDirs, "shared/cur-dir", "shared/cur-dir")
		}
		if k.extBack {
			// links inside an out-of-tree directory: back into the tree (relative / absolute) and further out
			switch r.Intn(4) {
			case 0:
				add(TNode{Root: "ext", Path: "dir/back-rel", Kind: "link", Target: "../../src/" + simkit.Pick(r, segPool)})
			case 1:
				add(TNode{Root: "ext", Path: "dir/back-abs", Kind: "link", Target: SrcRoot + "/" + simkit.Pick(r, segPool)})
			case 2:
				add(TNode{Root: "ext", Path: "dir/out", Kind: "link", Target: "../file"})
			default:
				add(TNode{Root: "ext", Path: "dir/out", Kind: "link", Target: "../file"})
				add(TNode{Root: "ext", Path: "dir/sub/out2", Kind: "link", Target: "../../file"})
			}
		}
		if k.hostileLinks {
			add(TNode{Root: "ext", Path: "cyc1", Kind: "link", Target: "cyc2"})
			add(TNode{Root: "ext", Path: "cyc2", Kind: "link", Target: "cyc1"})
			add(TNode{Root: "ext", Path: "self", Kind: "link", Target: "self"})
			add(TNode{Root: "ext", Path: "loopdir", Kind: "dir", Mode: 0o755})
			add(TNode{Root: "ext", Path: "loopdir/again", Kind: "link", Target: "."})
			add(TNode{Root: "ext", Path: "loopdir/up", Kind: "link", Target: "../loopdir"})
			add(TNode{Root: "ext", Path: "pipe", Kind: "fifo", Mode: 0o644})
			add(TNode{Root: "ext", Path: "dir2", Kind: "dir", Mode: 0o755})
			add(TNode{Root: "ext", Path: "dir2/pipe", Kind: "fifo", Mode: 0o644})
			add(TNode{Root: "ext", Path: "dir2/tofifo", Kind: "link", Target: "../pipe"})
			add(TNode{Root: "ext", Path: "cA", Kind: "dir", Mode: 0o755})
			add(TNode{Root: "ext", Path: "cB", Kind: "dir", Mode: 0o755})
			add(TNode{Root: "ext", Path: "cA/f", Kind: "file", Mode: 0o644, Tok: "OUT-6;"})
			add(TNode{Root: "ext", Path: "cA/peer", Kind: "link", Target: "../cB"})
			add(TNode{Root: "ext", Path: "cB/peer", Kind: "link", Target: "../cA"})
		}
	}
	if k.specials && r.Chance(1, 10) {
		// a module directory nested deep inside a data directory: the built-in exception
		// for .terraform/modules applies at any depth
		chain := []string{".terraform", ".terraform/x", ".terraform/x/.terraform", ".terraform/x/.terraform/modules", ".terraform/x/.terraform/modules/m"}
		for _, d := range chain {
			if !used["src:"+d] {
				add(TNode{Root: "src", Path: d, Kind: "dir", Mode: 0o755})
				dirs = append(dirs, d)
			}
		}
		add(TNode{Root: "src", Path: ".terraform/x/.terraform/modules/m/f", Kind: "file", Mode: 0o644, Tok: "IN-nested;"})
		add(TNode{Root: "src", Path: ".terraform/x/state", Kind: "file", Mode: 0o644, Tok: "IN-state;"})
	}
	n := k.maxNodes
	for i := 0; i < n*3 && len(sc.Tree) < n+20; i++ {
		d := simkit.Pick(r, dirs)
		if strings.Count(d, "/") >= 3 {
			continue
		}
		p := join(d, pickSeg(r, k))
		if used["src:"+p] || p == ".terraformignore" {
			continue
		}
		kind := r.Weighted([]int{6, 4, 3, 1})
		switch kind {
		case 0:
			tok++
			nd := TNode{Root: "src", Path: p, Kind: "file", Mode: 0o644, Tok: "IN-" + strconv.Itoa(tok) + ";"}
			if k.oddModes && r.Chance(1, 2) {
				nd.Mode = simkit.Pick(r, fModes)
			} else if r.Chance(1, 4) {
				nd.Mode = simkit.Pick(r, []int{0o600, 0o444, 0o755, 0o640})
			}
			switch r.Intn(8) {
			case 0:
				nd.Tok = "" // empty file
			case 1:
				nd.Size = 600
			}
			if b := p[strings.LastIndex(p, "/")+1:]; strings.HasPrefix(b, "._") && r.Chance(1, 2) {
				// the kind of file macOS archivers add beside the real one, magic number included
				nd.Tok = "\x00\x05\x16\x07AD-" + strconv.Itoa(tok) + ";"
			}
			if k.bigFile && r.Chance(1, 6) {
				nd.Size = 70000
				k.bigFile = false
			}
			add(nd)
			files = append(files, p)
		case 1:
			nd := TNode{Root: "src", Path: p, Kind: "dir", Mode: 0o755}
			if k.oddDirModes && r.Chance(1, 2) {
				nd.Mode = simkit.Pick(r, []int{0o444, 0o400, 0o000, 0o100, 0o300, 0o600})
			} else if k.oddModes && r.Chance(1, 2) {
				nd.Mode = simkit.Pick(r, dModes)
			} else if r.Chance(1, 5) {
				nd.Mode = simkit.Pick(r, []int{0o700, 0o750, 0o555})
			}
			add(nd)
			dirs = append(dirs, p)
		case 2:
			nd := TNode{Root: "src", Path: p, Kind: "link", Mode: 0o777}
			depth := strings.Count(p, "/")
			up := strings.Repeat("../", depth)
			var opts []string
			if k.inLinks {
				opts = append(opts, "sib", "file", "dir", "dangle", "updown", "chain", "via-link", "via-link-climb")
				if k.viaRootName {
					opts = append(opts, "via-root-name")
				}
			}
			if k.absInLinks {
				opts = append(opts, "abs-in")
			}
			if k.outLinks && k.safeOut {
				// (rule-centred profile: only outside links that dereferencing can follow)
				opts = append(opts, "out-file", "out-dir", "out-abs", "out-chain", "out-abs-unclean", "hist-ext")
			} else if k.outLinks {
				opts = append(opts, "out-file", "out-dir", "out-dangle", "sibling-prefix", "case-sibling", "out-abs", "out-chain", "hist-ext", "parent", "out-notdir", "out-loop", "out-abs-unclean", "via-alias")
			}
			if k.hostileLinks {
				opts = append(opts, "cycle", "self", "loopdir", "fifo", "fifodir", "dircycle")
			}
			if len(opts) == 0 {
				continue
			}
			switch simkit.Pick(r, opts) {
			case "sib":
				nd.Target = simkit.Pick(r, segPool)
			case "file":
				if len(files) == 0 {
					continue
				}
				nd.Target = up + simkit.Pick(r, files)
			case "dir":
				nd.Target = up + simkit.Pick(r, dirs)
				if nd.Target == "" || nd.Target == up {
					nd.Target = up + "."
				}
			case "dangle":
				nd.Target = "nowhere-" + simkit.Pick(r, segPool)
			case "updown":
				nd.Target = up + simkit.Pick(r, segPool) + "/" + simkit.Pick(r, segPool)
			case "chain":
				nd.Target = up + p // adjusted below to point to a previous link if any
				var links []string
				for _, t := range sc.Tree {
					if t.Root == "src" && t.Kind == "link" {
						links = append(links, t.Path)
					}
				}
				if len(links) == 0 {
					continue
				}
				nd.Target = up + simkit.Pick(r, links)
			case "abs-in":
				if len(files) > 0 && r.Chance(1, 2) {
					nd.Target = SrcRoot + "/" + simkit.Pick(r, files)
				} else {
					nd.Target = SrcRoot + "/" + simkit.Pick(r, dirs)
				}
			case "out-file":
				nd.Target = up + "../ext/" + simkit.Pick(r, extFiles)
			case "out-dir":
				nd.Target = up + "../ext/" + simkit.Pick(r, extDirs)
			case "out-dangle":
				nd.Target = up + "../ext/missing"
			case "out-notdir":
				// runs through a regular file: cannot be followed, for a reason other than "does not exist"
				nd.Target = up + "../ext/file/child"
			case "out-loop":
				nd.Target = up + "../ext/selfloop"
			case "sibling-prefix":
				nd.Target = up + "../src-evil/secret"
			case "case-sibling":
				// a sibling of the source directory whose name differs from it in letter case only
				nd.Target = up + "../SRC/secret"
			case "via-link-climb":
				// through an earlier in-tree link to a directory two or more levels down, then up
				// again by more levels than the text of the target has gone down
				var cands []string
				for _, t := range sc.Tree {
					if t.Root != "src" || t.Kind != "link" || strings.HasPrefix(t.Target, "/") {
						continue
					}
					res := pathClean(join(dirOf(t.Path), t.Target))
					if res != "" && !strings.HasPrefix(res, "..") && strings.Count(res, "/") >= 1 && contains(dirs, res) {
						cands = append(cands, t.Path+strings.Repeat("/..", strings.Count(res, "/")+1)+"/"+simkit.Pick(r, segPool))
					}
				}
				if len(cands) == 0 {
					continue
				}
				nd.Target = up + simkit.Pick(r, cands)
			case "via-link":
				// the target path passes through an earlier in-tree link to a directory
				var cands []string
				for _, t := range sc.Tree {
					if t.Root != "src" || t.Kind != "link" || strings.HasPrefix(t.Target, "/") {
						continue
					}
					res := pathClean(join(dirOf(t.Path), t.Target))
					for _, f := range files {
						if res != "" && !strings.HasPrefix(res, "..") && strings.HasPrefix(f, res+"/") {
							cands = append(cands, t.Path+"/"+strings.TrimPrefix(f, res+"/"))
						}
					}
				}
				if len(cands) == 0 {
					continue
				}
				nd.Target = up + simkit.Pick(r, cands)
			case "out-abs":
				nd.Target = ExtRoot + "/" + simkit.Pick(r, append(append([]string{}, extFiles...), extDirs...))
			case "out-abs-unclean":
				// an absolute target that is not spelled the shortest way
				nd.Target = simkit.Pick(r, []string{ExtRoot + "/dir/", "/w//ext/dir", "/w/ext/./dir", ExtRoot + "/dir/sub/..", "/w/ext//file"})
			case "via-alias":
				// into the tree by way of a name the tree is also known by (/w/lnk-abs -> /w/src)
				if len(files) == 0 {
					continue
				}
				nd.Target = simkit.Pick(r, []string{"/w/lnk-abs/", up + "../lnk-abs/"}) + simkit.Pick(r, files)
			case "out-chain":
				nd.Target = up + "../ext/chain1"
			case "hist-ext":
				nd.Target = up + "../hist3/ext/file"
			case "parent":
				nd.Target = up + ".."
			case "via-root-name":
				// leaves the tree and comes back in by way of the source directory's own name
				if len(files) == 0 {
					continue
				}
				nd.Target = up + "../src/" + simkit.Pick(r, files)
				if r.Chance(1, 3) {
					// the same, with the climb not at the front of the spelling
					nd.Target = simkit.Pick(r, []string{"./", "zz/../"}) + up + "../src/" + simkit.Pick(r, files)
				}
			case "cycle":
				nd.Target = up + "../ext/cyc1"
			case "self":
				nd.Target = up + "../ext/self"
			case "loopdir":
				nd.Target = up + "../ext/loopdir"
			case "fifo":
				nd.Target = up + "../ext/pipe"
			case "fifodir":
				nd.Target = up + "../ext/dir2"
			case "dircycle":
				nd.Target = up + "../ext/cA"
			}
			add(nd)
		case 3:
			if !k.fifos {
				continue
			}
			sk := simkit.Pick(r, []string{"fifo", "fifo", "sock", "dev"})
			if sk == "dev" && sc.UID != 0 {
				sk = "sock"
			}
			add(TNode{Root: "src", Path: p, Kind: sk, Mode: 0o644})
		}
	}
}

// genRules draws a rule file from the grammar. Patterns reuse the tree's own
// segment names so that they actually hit.
func genRules(r *simkit.RNG, sc *Scenario, k *knobs) string {
	var names []string
	seen := map[string]bool{}
	for _, n := range sc.Tree {
		if n.Root != "src" {
			continue
		}
		for _, s := range strings.Split(n.Path, "/") {
			if !seen[s] && s != "" && !strings.ContainsAny(s, "\\@\t\n") {
				seen[s] = true
				names = append(names, s)
			}
		}
	}
	if len(names) == 0 {
		names = []string{"a"}
	}
	seg := func() string {
		switch r.Intn(10) {
		case 0:
			return "*"
		case 1:
			return "?"
		case 2:
			s := simkit.Pick(r, names)
			return s[:1] + "*"
		case 3:
			return "*.txt"
		case 4:
			s := simkit.Pick(r, names)
			if len(s) > 1 {
				return s[:len(s)-1] + "?"
			}
			return s
		default:
			if k.metaRules && r.Chance(1, 3) {
				return simkit.Pick(r, []string{"a+b", "x(y)", "p|q", "^a", "a{2}", "(a", "a)", "a$", "[a-c]", "[^a]", "[^a-c]", "[^b]*", "[ab]", "[^ab].tf"})
			}
			return simkit.Pick(r, names)
		}
	}
	var lines []string
	nr := r.Range(0, 8)
	for i := 0; i < nr; i++ {
		switch r.Intn(12) {
		case 0:
			lines = append(lines, "# comment "+strconv.Itoa(i))
			continue
		case 1:
			lines = append(lines, "")
			continue
		}
		if k.degenRules && r.Chance(1, 4) {
			lines = append(lines, simkit.Pick(r, []string{"   ", "\t", "!", "/", " ! ", "!/", "\\", "a\\", "**", "!**", "**/", "a/**/", "[", "a**b", "\ufeff", "\ufeff  ", "\ufeff\t", "\ufeff#c", "\ufeff!"}))
			continue
		}
		ns := 1 + r.Weighted([]int{5, 3, 1})
		var ss []string
		for j := 0; j < ns; j++ {
			ss = append(ss, seg())
		}
		// a whole-segment '**' somewhere but never last, never the only kind of segment
		if r.Chance(1, 6) && len(ss) >= 1 {
			pos := r.Intn(len(ss))
			ss = append(ss[:pos], append([]string{"**"}, ss[pos:]...)...)
		}
		p := strings.Join(ss, "/")
		if r.Chance(1, 3) {
			p = "/" + p
		}
		if r.Chance(1, 3) {
			p += "/"
		}
		if r.Chance(1, 4) {
			p = "!" + p
		}
		if r.Chance(1, 12) {
			p = "  " + p + " "
		}
		lines = append(lines, p)
	}
	if !k.degenRules && len(lines) > 0 && r.Chance(1, 8) {
		// one line that cannot be used, among ordinary ones
		pos := r.Intn(len(lines) + 1)
		bad := simkit.Pick(r, []string{"notes[1.txt", "[a-", "![", "x[", "*.t[xt"})
		lines = append(lines[:pos], append([]string{bad}, lines[pos:]...)...)
	}
	// a directory rule naming a link to an out-of-tree directory, and a later rule re-including something below it
	if k.outLinks && r.Chance(1, 2) {
		have := false
		for _, n := range sc.Tree {
			if n.Root == "src" && n.Kind == "link" && strings.Contains(n.Target, "ext/dir") && !strings.Contains(n.Target, "dir/") && !strings.ContainsAny(n.Path, "\\@\t\n") {
				have = true
			}
		}
		if !have {
			nd := TNode{Root: "src", Path: "xl", Kind: "link", Mode: 0o777, Target: "../ext/dir"}
			times(r, &nd)
			sc.Tree = append(sc.Tree, nd)
		}
		for _, n := range sc.Tree {
			if n.Root == "src" && n.Kind == "link" && strings.Contains(n.Target, "ext/dir") && !strings.Contains(n.Target, "dir/") && !strings.ContainsAny(n.Path, "\\@\t\n") {
				lines = append(lines, n.Path+"/", "!"+n.Path+"/"+simkit.Pick(r, []string{"f", "secret", "sub/g"}))
				break
			}
		}
	}
	return strings.Join(lines, "\n") + simkit.Pick(r, []string{"\n", "", "\n\n"})
}

var spellings = []string{"abs", "trail", "dot", "dotdot", "rel", "symlink-abs", "symlink-rel", "symlink-abs-trail", "symlink-abs-dot", "symlink-chain", "symlink-rel-trail"}
var cwds = []string{"/cwd", "/w", "/w/src"}
var wchunks = [][]int{nil, {1}, {7}, {512}, {4096}, {3, 5, 11}}

func genRuns(r *simkit.RNG, sc *Scenario, k *knobs, profile string) {
	sc.Opts.Ignore = r.Chance(1, 2)
	sc.Opts.Deref = r.Chance(1, 3)
	if r.Chance(1, 5) {
		sc.Opts.Legacy = true
		sc.Opts.Ignore = true
	}
	if k.outLinks && r.Chance(1, 6) {
		sc.Opts.Allow = []string{simkit.Pick(r, []string{"/w/ext", "/w/ext/dir", "../ext/file", ""})}
	}
	run := func() PackRun {
		return PackRun{Spelling: "abs", Cwd: "/cwd"}
	}
	defer func() {
		if hr := simkit.NewRNG(sc.Seed, "pw/hist-after"); len(sc.History) > 0 && !sc.Conc && len(sc.Runs) >= 2 && hr.Chance(1, 2) {
			sc.HistAfter = 1
		}
	}()
	defer func() {
		// a link to the parent of the source directory: dereferencing it would copy the
		// whole arena (the auxiliary trees included), which the provenance model does not describe
		for _, n := range sc.Tree {
			if n.Root == "src" && n.Kind == "link" && (n.Target == ".." || strings.HasSuffix(n.Target, "/..")) {
				sc.Opts.Deref = false
			}
		}
	}()
	sc.SharedPacker = r.Chance(1, 3)
	if k.outLinks && r.Chance(1, 6) {
		// a relative allow-list entry, and a Packer that has already served another root
		sc.Opts.Allow = []string{"../ext"}
		sc.SharedPacker = true
		sc.History = append(sc.History, "shared:hist3")
	}
	switch profile {
	case "roundtrip":
		p := run()
		p.RoundTrip = simkit.Pick(r, []string{"seq", "pipe"})
		p.PipeCap = simkit.Pick(r, []int{1, 7, 64, 512, 4096, 65536})
		p.Chunks = simkit.Pick(r, wchunks)
		p.RtAlias = r.Chance(1, 5)
		sc.Runs = []PackRun{p}
		if k.concShared {
			// two callers sharing one Packer, both results unpacked afterwards
			p.RoundTrip = "seq"
			sc.Runs = []PackRun{p, p}
			sc.Conc, sc.SharedPacker = true, true
			sc.SchedSeed = r.U64()
			sc.SchedShape = simkit.Pick(r, []string{"random", "rr"})
			if r.Chance(1, 2) {
				sc.Others = []string{simkit.Pick(r, []string{"hist1", "hist4", "big"})}
			}
		}
		sc.Opts.Deref = r.Chance(1, 5)
		if k.rules && !k.concShared && simkit.NewRNG(sc.Seed, "pw/rt-stale").Chance(1, 6) {
			sc.History = []string{"stale-rules-samelen"}
		}
		if k.rules {
			sc.Opts.Ignore = r.Chance(3, 4)
		}
	case "ignore":
		sc.Opts.Ignore = !r.Chance(1, 6)
		sc.Opts.Deref = k.outLinks
		p := run()
		if r.Chance(1, 4) {
			p.RoundTrip = "seq"
		}
		sc.Runs = []PackRun{p}
		if r.Chance(1, 10) {
			sc.RulesKind = simkit.Pick(r, []string{"dir", "longline", "fifo", "fifo-link"})
		}
		switch r.Intn(7) {
		case 6:
			// the same Packer packed this directory before, when its rule file said something else
			sc.SharedPacker = true
			sc.History = append(sc.History, "shared:stale-rules")
		case 0, 1:
			sc.History = append(sc.History, simkit.Pick(r, []string{"neg-first", "empty-rules", "other-opts", "dot-other-tree", "negated-twin-rules", "stale-rules-samelen"}))
			sc.Runs = append(sc.Runs, run()) // same pack again after the history
			if sc.History[len(sc.History)-1] == "dot-other-tree" {
				sc.Runs[len(sc.Runs)-1].Spelling, sc.Runs[len(sc.Runs)-1].Cwd = "rel", "/w/src"
			}
		case 2:
			// other callers parse other rule files while this Pack is walking
			sc.Conc = true
			sc.Others = []string{simkit.Pick(r, []string{"hist1", "hist4", "big"})}
			if r.Chance(1, 2) {
				sc.Others = append(sc.Others, simkit.Pick(r, []string{"hist1", "hist4"}))
			}
			sc.SchedSeed = r.U64()
			sc.SchedShape = simkit.Pick(r, []string{"random", "rr"})
		}
	case "links":
		sc.Opts.Deref = r.Chance(1, 2)
		p := run()
		if r.Chance(1, 2) {
			p.RoundTrip = "seq"
			p.RtAlias = r.Chance(1, 3)
		}
		sc.Runs = []PackRun{p}
		if k.concShared {
			// the same Packer is packing another tree (full of outside content) at the same time
			cr := simkit.NewRNG(sc.Seed, "pw/links-conc-runs")
			sc.Runs = []PackRun{p, p}
			sc.Conc, sc.SharedPacker = true, true
			sc.Opts.Legacy = false
			sc.Others = []string{"big"}
			sc.SchedSeed = cr.U64()
			sc.SchedShape = simkit.Pick(cr, []string{"random", "rr"})
		}
	case "spell":
		n := r.Range(2, 5)
		for i := 0; i < n; i++ {
			p := run()
			p.Spelling = simkit.Pick(r, spellings)
			p.Cwd = simkit.Pick(r, cwds)
			sc.Runs = append(sc.Runs, p)
		}
		for i := r.Intn(3); i > 0; i-- {
			sc.History = append(sc.History, simkit.Pick(r, []string{"neg-first", "other-opts", "empty-rules", "chdir:/tmp", "same", "dot-other-tree", "negated-twin-rules", "stale-rules-samelen"}))
		}
		if k.outLinks && r.Chance(1, 3) {
			// a relative allow-list entry: it means <source>/ext, whatever the working directory
			sc.Opts.Allow = []string{"ext"}
			sc.Opts.Legacy = false
		}
		if k.failedEarlier {
			sc.SharedPacker = true
			sc.Opts.Deref, sc.Opts.Legacy, sc.Opts.Allow = true, false, nil
			sc.History = append(sc.History, "shared:fail@"+strconv.Itoa(simkit.Pick(r, []int{300, 1000, 2000, 4000, 8000, 11000})))
		} else if r.Chance(1, 6) {
			sc.SharedPacker = true
			sc.History = append(sc.History, "shared:fail@"+strconv.Itoa(simkit.Pick(r, []int{5, 300, 2000, 20000, 70000, 100000})))
		}
		if wr := simkit.NewRNG(sc.Seed, "pw/worn"); (sc.SharedPacker && sc.Opts.Deref && !sc.Opts.Legacy && wr.Chance(1, 2)) || (k.outLinks && wr.Chance(1, 15)) {
			// a Packer that has been in service for a while: well over a hundred earlier calls,
			// each of which followed a long chain of outside links
			sc.SharedPacker = true
			sc.Opts.Deref, sc.Opts.Legacy = true, false
			sc.History = append(sc.History, "shared:worn")
		}
		if r.Chance(1, 3) {
			sc.Conc = true
			if r.Chance(1, 2) {
				for i := r.Range(1, 4); i > 0; i-- {
					sc.Chdirs = append(sc.Chdirs, simkit.Pick(r, []string{"/tmp", "/w", "/cwd", "/", "/w/ext"}))
				}
			}
			// under concurrency (shared cwd) the source is always spelled absolutely
			for i := range sc.Runs {
				sc.Runs[i].Cwd = sc.Runs[0].Cwd
				if sc.Runs[i].Spelling == "rel" {
					sc.Runs[i].Spelling = "abs"
				}
			}
			sc.SchedSeed = r.U64()
			sc.SchedShape = simkit.Pick(r, []string{"random", "random", "rr", "rtc"})
			if r.Chance(1, 2) {
				sc.Others = []string{simkit.Pick(r, []string{"hist1", "hist4", "big"})}
			}
		}
	case "meta":
		p := run()
		p.Spelling = simkit.Pick(r, spellings)
		p.Cwd = simkit.Pick(r, cwds)
		sc.Runs = []PackRun{p}
		if r.Chance(1, 4) {
			sc.Runs = append(sc.Runs, run())
			sc.Conc = true
			sc.Runs[0].Spelling = "abs"
			sc.SchedSeed = r.U64()
			sc.SchedShape = simkit.Pick(r, []string{"random", "rr"})
			sc.SharedPacker = r.Chance(2, 3)
			if r.Chance(1, 3) {
				sc.Others = []string{"big"}
			}
		}
	case "mutate":
		sc.Opts.Deref = false
		sc.Opts.Allow = nil
		sc.History = nil
		sc.SharedPacker = false
		sc.Runs = []PackRun{run()}
		sc.Conc = true
		sc.SchedSeed = r.U64()
		sc.SchedShape = simkit.Pick(r, []string{"random", "rr"})
		var files []string
		for _, n := range sc.Tree {
			if n.Root == "src" && n.Kind == "file" {
				files = append(files, n.Path)
			}
		}
		for i := r.Range(1, 4); i > 0 && len(files) > 0; i-- {
			m := Mutation{Op: simkit.Pick(r, []string{"truncate", "truncate", "grow", "remove", "chmod000", "replace-with-dir"}), Path: simkit.Pick(r, files)}
			if r.Chance(2, 3) {
				m.Path = simkit.Pick(r, []string{"big-1.bin", "big-2.bin"})
			}
			m.Size = simkit.Pick(r, []int{0, 1, 1000, 35000, 65536, 200000})
			sc.Mutations = append(sc.Mutations, m)
		}
	case "hostile":
		sc.Opts.Deref = r.Chance(3, 4)
		p := run()
		if r.Chance(1, 12) {
			p.Spelling = "symlink-loop" // the source argument is a link whose chain never ends
		}
		if nr := simkit.NewRNG(sc.Seed, "pw/not-a-dir"); nr.Chance(1, 10) {
			// the source argument is a regular file, or a link to one: there is no tree to pack
			p.Spelling = simkit.Pick(nr, []string{"not-a-dir", "link-to-file"})
		}
		sc.Runs = []PackRun{p}
		if k.rules && r.Chance(1, 4) {
			sc.RulesKind = simkit.Pick(r, []string{"dir", "longline", "fifo", "fifo-link"})
		}
	}
}
