// Package pw is the Pack world: real slug.Pack reading a generated tree in the
// chroot arena and writing to simulated devices, optionally followed by a real
// Unpack (sequentially or as a second task over a simulated pipe). Oracles for
// C02, C03 (Pack side), C05, C16, C20 and the Pack parts of C12 and C19 live
// in package pwrun.
package pw

import (
	"sort"
	"strings"

	"verif/sim/simkit"
)

// TNode is one node of a generated tree. Root "src" is the tree being packed
// (/w/src); root "ext" is everything outside it (/w/ext).
type TNode struct {
	Root   string `json:"root"`
	Path   string `json:"path"`
	Kind   string `json:"kind"` // dir file link fifo
	Mode   int    `json:"mode"`
	Sec    int64  `json:"sec"`
	Nsec   int64  `json:"nsec,omitempty"`
	Tok    string `json:"tok,omitempty"`  // unique content token of a file
	Size   int    `json:"size,omitempty"` // extra filler bytes
	Target string `json:"target,omitempty"`
}

type Opts struct {
	Ignore bool     `json:"ignore"`
	Deref  bool     `json:"deref"`
	Allow  []string `json:"allow,omitempty"`
	Legacy bool     `json:"legacy,omitempty"` // route through slug.Pack (ignore always on)
}

// PackRun is one observed Pack call.
type PackRun struct {
	Spelling  string            `json:"spelling"` // abs trail dot dotdot rel symlink-abs symlink-rel
	Cwd       string            `json:"cwd"`      // /cwd /w /w/src
	Writer    simkit.WriterPlan `json:"writer"`
	RoundTrip string            `json:"round_trip,omitempty"` // "", seq, pipe
	PipeCap   int               `json:"pipe_cap,omitempty"`
	PipeBreak int               `json:"pipe_break,omitempty"`
	Chunks    []int             `json:"chunks,omitempty"`   // reader / pipe chunking on the Unpack side
	RtAlias   bool              `json:"rt_alias,omitempty"` // the round-trip destination is spelled through a symlinked path component
}

type Scenario struct {
	World        string     `json:"world"`
	Profile      string     `json:"profile"`
	Seed         uint64     `json:"seed"`
	UID          int        `json:"uid"`
	Umask        int        `json:"umask"`
	Tree         []TNode    `json:"tree"`
	Rules        *string    `json:"rules,omitempty"` // content of /w/src/.terraformignore (nil: no file)
	Opts         Opts       `json:"opts"`
	History      []string   `json:"history,omitempty"`    // neg-first other-opts empty-rules chdir:<dir> same
	Expect       []string   `json:"-"`                    // per run: output digest of the same run in a fresh process that has no history (set by the orchestrator, never stored)
	HistAfter    int        `json:"hist_after,omitempty"` // the first HistAfter runs execute before the history instead of after it (sequential runs only)
	Runs         []PackRun  `json:"runs"`
	Conc         bool       `json:"conc,omitempty"`          // runs execute as concurrent tasks
	Chdirs       []string   `json:"chdirs,omitempty"`        // a further task that only changes the working directory
	Others       []string   `json:"others,omitempty"`        // further concurrent tasks packing other trees with other rule files: hist1 hist4 big
	SharedPacker bool       `json:"shared_packer,omitempty"` // all Pack calls of the scenario go through one *Packer
	RulesKind    string     `json:"rules_kind,omitempty"`    // "": a regular rule file; "dir": .terraformignore is a directory; "longline": valid rules followed by a line longer than the scanner accepts
	Mutations    []Mutation `json:"mutations,omitempty"`     // a further task that changes the tree while Pack runs (C19/C20/C12 only)
	SchedSeed    uint64     `json:"sched_seed,omitempty"`
	SchedShape   string     `json:"sched_shape,omitempty"`
	Tapes        [][]int    `json:"tapes,omitempty"` // pinned schedule tapes, one per scheduler in creation order
	HaveTape     bool       `json:"have_tape,omitempty"`
}

// Mutation is one step of the mutator task: it runs at a scheduler yield of the
// packing task, i.e. in the middle of the walk.
type Mutation struct {
	Op   string `json:"op"`   // truncate grow remove replace-with-dir chmod000
	Path string `json:"path"` // src-relative
	Size int    `json:"size,omitempty"`
}

// SrcRoot etc. are fixed arena paths.
const (
	SrcRoot = "/w/src"
	ExtRoot = "/w/ext"
)

// Abs gives the arena path of a node.
func (n TNode) Abs() string {
	base := SrcRoot
	if n.Root == "ext" {
		base = ExtRoot
	}
	if n.Path == "" {
		return base
	}
	return base + "/" + n.Path
}

// Body is the deterministic content of a file node.
func (n TNode) Body() []byte {
	b := []byte(n.Tok)
	if n.Size >= 10000 {
		// incompressible filler: the compressed stream is then long enough to be
		// flushed (and the packer to yield) many times in the middle of this file
		x := uint64(len(n.Tok))*0x9E3779B97F4A7C15 + uint64(n.Size) + uint64(len(n.Path))
		for i := 0; i < n.Size; i++ {
			x ^= x << 13
			x ^= x >> 7
			x ^= x << 17
			b = append(b, byte(x>>24))
		}
		return b
	}
	for i := 0; i < n.Size; i++ {
		b = append(b, byte('A'+(i*11+len(n.Tok))%26))
	}
	return b
}

// SortedByDepth returns node indices ordered parents first.
func ParentsFirst(t []TNode) []int {
	idx := make([]int, len(t))
	for i := range idx {
		idx[i] = i
	}
	sort.SliceStable(idx, func(a, b int) bool {
		da := strings.Count(t[idx[a]].Path, "/")
		db := strings.Count(t[idx[b]].Path, "/")
		if da != db {
			return da < db
		}
		return t[idx[a]].Path < t[idx[b]].Path
	})
	return idx
}
