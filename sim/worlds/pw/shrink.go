package pw

import (
	"encoding/json"
	"strings"
)

// Shrink proposes structurally simpler variants of a scenario.
func Shrink(raw json.RawMessage) []json.RawMessage {
	var sc Scenario
	if json.Unmarshal(raw, &sc) != nil {
		return nil
	}
	base, _ := json.Marshal(&sc)
	var out []json.RawMessage
	emit := func(f func(c *Scenario) bool) {
		var c Scenario
		json.Unmarshal(base, &c)
		if f(&c) {
			nb, _ := json.Marshal(&c)
			if string(nb) != string(base) {
				out = append(out, nb)
			}
		}
	}
	// drop all ext nodes not referenced / halves of the tree / single nodes (with their subtree)
	dropNode := func(c *Scenario, i int) {
		n := c.Tree[i]
		var keep []TNode
		for j, m := range c.Tree {
			if j == i {
				continue
			}
			if m.Root == n.Root && strings.HasPrefix(m.Path, n.Path+"/") {
				continue
			}
			keep = append(keep, m)
		}
		c.Tree = keep
	}
	if len(sc.Tree) > 4 {
		emit(func(c *Scenario) bool {
			var keep []TNode
			for _, n := range c.Tree {
				if n.Root == "src" {
					keep = append(keep, n)
				}
			}
			c.Tree = keep
			return true
		})
		emit(func(c *Scenario) bool { c.Tree = c.Tree[:len(c.Tree)/2]; return validTree(c) })
	}
	for i := len(sc.Tree) - 1; i >= 0; i-- {
		i := i
		emit(func(c *Scenario) bool { dropNode(c, i); return true })
	}
	if sc.HistAfter > 0 {
		emit(func(c *Scenario) bool { c.HistAfter = 0; return true })
	}
	if len(sc.History) > 0 {
		emit(func(c *Scenario) bool { c.History = nil; return true })
		for i := range sc.History {
			i := i
			emit(func(c *Scenario) bool { c.History = append(c.History[:i], c.History[i+1:]...); return true })
		}
	}
	if len(sc.Runs) > 1 {
		for i := range sc.Runs {
			i := i
			emit(func(c *Scenario) bool { c.Runs = append(c.Runs[:i], c.Runs[i+1:]...); return true })
		}
	}
	if sc.RulesKind != "" {
		emit(func(c *Scenario) bool { c.RulesKind = ""; return true })
	}
	if len(sc.Mutations) > 1 {
		for i := range sc.Mutations {
			i := i
			emit(func(c *Scenario) bool { c.Mutations = append(c.Mutations[:i], c.Mutations[i+1:]...); return true })
		}
	}
	if sc.SharedPacker {
		emit(func(c *Scenario) bool { c.SharedPacker = false; return true })
	}
	if len(sc.Others) > 0 {
		emit(func(c *Scenario) bool { c.Others = nil; return true })
	}
	if sc.Conc {
		emit(func(c *Scenario) bool { c.Conc = false; c.Chdirs = nil; c.Others = nil; return true })
		if len(sc.Chdirs) > 0 {
			emit(func(c *Scenario) bool { c.Chdirs = nil; return true })
		}
	}
	if sc.HaveTape {
		for ti := range sc.Tapes {
			ti := ti
			if len(sc.Tapes[ti]) == 0 {
				continue
			}
			emit(func(c *Scenario) bool { c.Tapes[ti] = c.Tapes[ti][:len(c.Tapes[ti])/2]; return true })
			emit(func(c *Scenario) bool {
				for i := range c.Tapes[ti] {
					c.Tapes[ti][i] = 0
				}
				return true
			})
		}
	}
	// rules: drop lines
	if sc.Rules != nil {
		lines := strings.Split(*sc.Rules, "\n")
		if len(lines) > 1 {
			for i := range lines {
				i := i
				emit(func(c *Scenario) bool {
					l := append(append([]string{}, lines[:i]...), lines[i+1:]...)
					s := strings.Join(l, "\n")
					c.Rules = &s
					return true
				})
			}
		}
		emit(func(c *Scenario) bool { c.Rules = nil; return true })
	}
	for i := range sc.Runs {
		i := i
		rn := sc.Runs[i]
		if rn.Spelling != "abs" {
			emit(func(c *Scenario) bool { c.Runs[i].Spelling = "abs"; return true })
		}
		if rn.Cwd != "/cwd" {
			emit(func(c *Scenario) bool { c.Runs[i].Cwd = "/cwd"; return true })
		}
		if rn.RoundTrip == "pipe" {
			emit(func(c *Scenario) bool { c.Runs[i].RoundTrip = "seq"; return true })
		}
		if rn.RoundTrip != "" {
			emit(func(c *Scenario) bool { c.Runs[i].RoundTrip = ""; return true })
		}
		if len(rn.Chunks) > 0 {
			emit(func(c *Scenario) bool { c.Runs[i].Chunks = nil; return true })
		}
		if rn.Writer.CallFault > 0 || len(rn.Writer.Faults) > 0 {
			emit(func(c *Scenario) bool { c.Runs[i].Writer.CallFault = 0; c.Runs[i].Writer.Faults = nil; return true })
		}
	}
	if sc.Opts.Legacy {
		emit(func(c *Scenario) bool { c.Opts.Legacy = false; return true })
	}
	if len(sc.Opts.Allow) > 0 {
		emit(func(c *Scenario) bool { c.Opts.Allow = nil; return true })
	}
	if sc.Opts.Deref {
		emit(func(c *Scenario) bool { c.Opts.Deref = false; return true })
	}
	if sc.UID != 0 {
		emit(func(c *Scenario) bool { c.UID = 0; return true })
	}
	if sc.Umask != 0o022 {
		emit(func(c *Scenario) bool { c.Umask = 0o022; return true })
	}
	for i := range sc.Tree {
		i := i
		n := sc.Tree[i]
		if n.Size != 0 {
			emit(func(c *Scenario) bool { c.Tree[i].Size = 0; return true })
		}
		if n.Nsec != 0 {
			emit(func(c *Scenario) bool { c.Tree[i].Nsec = 0; return true })
		}
		if n.Kind == "file" && n.Mode != 0o644 {
			emit(func(c *Scenario) bool { c.Tree[i].Mode = 0o644; return true })
		}
		if n.Kind == "dir" && n.Mode != 0o755 {
			emit(func(c *Scenario) bool { c.Tree[i].Mode = 0o755; return true })
		}
	}
	return out
}

// validTree: every node's parent directory is present.
func validTree(c *Scenario) bool {
	have := map[string]bool{}
	for _, n := range c.Tree {
		if n.Kind == "dir" {
			have[n.Root+":"+n.Path] = true
		}
	}
	for _, n := range c.Tree {
		if k := strings.LastIndex(n.Path, "/"); k >= 0 {
			if !have[n.Root+":"+n.Path[:k]] {
				return false
			}
		}
	}
	return true
}
