// Package pwrun executes Pack-world scenarios against the real go-slug code.
package pwrun

import (
	"archive/tar"
	"bytes"
	"compress/gzip"
	"errors"
	"fmt"
	"io"
	"os"
	"path/filepath"
	"regexp"
	"sort"
	"strconv"
	"strings"
	"syscall"
	"time"

	slug "github.com/hashicorp/go-slug"
	"golang.org/x/sys/unix"

	"verif/sim/model"
	"verif/sim/simkit"
	"verif/sim/worlds/pw"
	"verif/sim/worlds/uwrun"
)

type tree struct {
	src map[string]*pw.TNode // path -> node
	ext map[string]*pw.TNode
}

func (t *tree) lookupAbs(p string) *pw.TNode {
	p = filepath.Clean(p)
	if p == "/w/lnk-abs" || strings.HasPrefix(p, "/w/lnk-abs/") {
		// another name of the source directory (a symlink to it next to it)
		p = pw.SrcRoot + p[len("/w/lnk-abs"):]
	}
	switch {
	case p == pw.SrcRoot:
		return &pw.TNode{Root: "src", Kind: "dir"}
	case p == pw.ExtRoot:
		return &pw.TNode{Root: "ext", Kind: "dir"}
	case strings.HasPrefix(p, pw.SrcRoot+"/"):
		return t.src[p[len(pw.SrcRoot)+1:]]
	case strings.HasPrefix(p, pw.ExtRoot+"/"):
		return t.ext[p[len(pw.ExtRoot)+1:]]
	case p == "/w/src-evil" || p == "/w" || p == "/w/hist3" || p == "/w/hist3/ext" || p == "/w/SRC":
		return &pw.TNode{Root: "evil", Kind: "dir"}
	case p == "/w/hist3/ext/file":
		return &pw.TNode{Root: "evil", Kind: "file", Tok: "OUT-7;"}
	case p == "/w/src-evil/secret":
		return &pw.TNode{Root: "evil", Kind: "file", Tok: "OUT-9;"}
	case p == "/w/SRC/secret":
		return &pw.TNode{Root: "evil", Kind: "file", Tok: "OUT-11;"}
	}
	return nil
}

var rawByteRe = regexp.MustCompile(`@([0-9A-F]{2})@`)

func rawBytes(s string) string {
	if !strings.Contains(s, "@") {
		return s
	}
	return rawByteRe.ReplaceAllStringFunc(s, func(m string) string {
		b, _ := strconv.ParseUint(m[1:3], 16, 8)
		return string([]byte{byte(b)})
	})
}

func setTimes(p string, sec, nsec int64) error {
	ts := []unix.Timespec{{Sec: sec, Nsec: nsec}, {Sec: sec, Nsec: nsec}}
	return unix.UtimesNanoAt(unix.AT_FDCWD, p, ts, unix.AT_SYMLINK_NOFOLLOW)
}

func buildArena(sc *pw.Scenario) error {
	for _, d := range []string{"/w", "/tmp", "/cwd", pw.SrcRoot, pw.ExtRoot, "/w/src-evil", "/w/hist1", "/w/hist2"} {
		if err := os.MkdirAll(d, 0o755); err != nil {
			return err
		}
	}
	os.WriteFile("/w/src-evil/secret", []byte("OUT-9;"), 0o644)
	os.MkdirAll("/w/SRC", 0o755)
	os.WriteFile("/w/SRC/secret", []byte("OUT-11;"), 0o644)
	os.Symlink(pw.SrcRoot, "/w/lnk-abs")
	os.Symlink("src", "/w/lnk-rel")
	os.Symlink("/w/lnk-abs", "/w/lnk-chain")
	os.Symlink("/w/lnk-loop-b", "/w/lnk-loop-a")
	os.WriteFile("/w/plainfile", []byte("not a directory"), 0o644)
	os.Symlink("/w/plainfile", "/w/lnk-file")
	os.Symlink("/w/lnk-loop-a", "/w/lnk-loop-b")
	os.WriteFile("/w/hist1/.terraformignore", []byte("!x\ny\n"), 0o644)
	os.WriteFile("/w/hist1/x", []byte("hx"), 0o644)
	os.WriteFile("/w/hist1/y", []byte("hy"), 0o644)
	os.WriteFile("/w/hist2/.terraformignore", []byte(""), 0o644)
	os.WriteFile("/w/hist2/z", []byte("hz"), 0o644)
	// another root for a shared Packer with a relative allow-list entry
	os.MkdirAll("/w/hist3/inner", 0o755)
	os.MkdirAll("/w/hist3/ext", 0o755)
	os.WriteFile("/w/hist3/ext/file", []byte("OUT-7;"), 0o644)
	os.Symlink("../ext/file", "/w/hist3/inner/l")
	os.WriteFile("/w/hist3/inner/f", []byte("h3"), 0o644)
	// trees with other one-line rule files, packed by concurrent callers
	os.MkdirAll("/w/hist4", 0o755)
	os.WriteFile("/w/hist4/.terraformignore", []byte("b\n"), 0o644)
	for _, n := range []string{"a", "b", "c", "d"} {
		os.WriteFile("/w/hist4/"+n, []byte("h4"+n), 0o644)
	}
	os.MkdirAll("/w/big", 0o755)
	os.WriteFile("/w/big/.terraformignore", []byte("a\n!b\nc*\n"), 0o644)
	for i := 0; i < 30; i++ {
		os.WriteFile(fmt.Sprintf("/w/big/f%02d", i), bytes.Repeat([]byte(fmt.Sprintf("OUT-%d;%c", 20+i, 'a'+i%26)), 400+9*i), 0o644) // outside content: must never show up in a slug of the source tree
	}
	// pin the times of the auxiliary trees too: they end up in archive headers and so in the
	// sizes of simulated writes
	for _, d := range []string{"/w/hist1", "/w/hist2", "/w/hist3", "/w/hist4", "/w/big", "/w/src-evil"} {
		filepath.Walk(d, func(p string, info os.FileInfo, err error) error {
			if err == nil {
				setTimes(p, 1300000002, 0)
			}
			return nil
		})
	}
	order := pw.ParentsFirst(sc.Tree)
	for _, i := range order {
		n := sc.Tree[i]
		p := n.Abs()
		var err error
		switch n.Kind {
		case "dir":
			err = os.Mkdir(p, 0o755)
		case "file":
			err = os.WriteFile(p, n.Body(), 0o644)
		case "link":
			err = os.Symlink(n.Target, p)
		case "fifo":
			err = syscall.Mkfifo(p, 0o644)
		case "sock":
			err = mkSocket(p)
		case "dev":
			err = syscall.Mknod(p, syscall.S_IFCHR|0o644, 1<<8|3) // like /dev/null; needs uid 0
		}
		if err != nil {
			return fmt.Errorf("tree node %s: %w", p, err)
		}
	}
	if sc.Rules != nil {
		switch sc.RulesKind {
		case "dir":
			// the rule file cannot be read at all
			os.Mkdir(pw.SrcRoot+"/.terraformignore", 0o755)
		case "fifo":
			// a named pipe where the rule file should be: opening it must not be waited for
			syscall.Mkfifo(pw.SrcRoot+"/.terraformignore", 0o644)
		case "fifo-link":
			// the same behind a symlink: what matters is what opening the name would reach
			syscall.Mkfifo(pw.SrcRoot+"/rules.fifo", 0o644)
			os.Symlink("rules.fifo", pw.SrcRoot+"/.terraformignore")
		case "longline":
			// valid rules, then a line longer than a line scanner accepts
			long := *sc.Rules + "\n" + strings.Repeat("x", 70000) + "\n"
			os.WriteFile(pw.SrcRoot+"/.terraformignore", []byte(long), 0o644)
		default:
			if err := os.WriteFile(pw.SrcRoot+"/.terraformignore", []byte(*sc.Rules), 0o644); err != nil {
				return err
			}
		}
		setTimes(pw.SrcRoot+"/.terraformignore", 1300000001, 0)
	}
	// attributes bottom-up so that creating children never disturbs a parent
	for k := len(order) - 1; k >= 0; k-- {
		n := sc.Tree[order[k]]
		p := n.Abs()
		if n.Kind != "link" {
			if err := os.Chmod(p, os.FileMode(n.Mode)); err != nil {
				return err
			}
		}
		if err := setTimes(p, n.Sec, n.Nsec); err != nil {
			return fmt.Errorf("times %s: %w", p, err)
		}
	}
	for _, d := range []string{pw.SrcRoot, pw.ExtRoot, "/w/src-evil", "/w/src-evil/secret", "/w/SRC", "/w/SRC/secret", "/w/lnk-abs", "/w/lnk-rel", "/w/lnk-chain", "/w"} {
		setTimes(d, 1300000000, 0)
	}
	return nil
}

// mkSocket leaves a unix-domain socket file at p.
func mkSocket(p string) error {
	fd, err := syscall.Socket(syscall.AF_UNIX, syscall.SOCK_STREAM, 0)
	if err != nil {
		return err
	}
	defer syscall.Close(fd)
	return syscall.Bind(fd, &syscall.SockaddrUnix{Name: p})
}

func isSpecial(kind string) bool { return kind == "fifo" || kind == "sock" || kind == "dev" }

func spell(s, cwd string) string {
	switch s {
	case "trail":
		return pw.SrcRoot + "/"
	case "dot":
		return "/w/./src/."
	case "dotdot":
		return "/w/ext/../src"
	case "rel":
		switch cwd {
		case "/w":
			return "src"
		case "/w/src":
			return "."
		default:
			return "../w/src"
		}
	case "symlink-abs":
		return "/w/lnk-abs"
	case "symlink-rel":
		return "/w/lnk-rel"
	case "symlink-abs-trail":
		return "/w/lnk-abs/"
	case "symlink-abs-dot":
		return "/w/lnk-abs/."
	case "symlink-chain":
		return "/w/lnk-chain"
	case "symlink-rel-trail":
		return "/w/lnk-rel/"
	case "symlink-loop":
		return "/w/lnk-loop-a"
	case "not-a-dir":
		return "/w/plainfile"
	case "link-to-file":
		return "/w/lnk-file"
	}
	return pw.SrcRoot
}

func packer(o pw.Opts) (*slug.Packer, error) {
	var opts []slug.PackerOption
	if o.Ignore {
		opts = append(opts, slug.ApplyTerraformIgnore())
	}
	if o.Deref {
		opts = append(opts, slug.DereferenceSymlinks())
	}
	for _, a := range o.Allow {
		opts = append(opts, slug.AllowSymlinkTarget(a))
	}
	return slug.NewPacker(opts...)
}

type result struct {
	meta   *slug.Meta
	err    error
	pan    interface{}
	data   []byte
	devErr bool
	ents   []model.DEntry
	sizes  []int64 // header sizes of regular entries
	decOK  bool
	unpErr error
	unpPan interface{}
	unpRan bool
	rtDir  string
	calls  int
}

// sharedPacker, when non-nil, is the one *Packer all Pack calls of the scenario use.
var sharedPacker *slug.Packer

func doPack(o pw.Opts, src string, w io.Writer) (meta *slug.Meta, err error, pan interface{}) {
	defer func() {
		if r := recover(); r != nil {
			pan = r
		}
	}()
	if sharedPacker != nil {
		meta, err = sharedPacker.Pack(src, w)
		return
	}
	if o.Legacy && len(o.Allow) == 0 {
		meta, err = slug.Pack(src, w, o.Deref)
		return
	}
	p, perr := packer(o)
	if perr != nil {
		return nil, perr, nil
	}
	meta, err = p.Pack(src, w)
	return
}

func doUnpack(r io.Reader, dst string, allow []string) (err error, pan interface{}) {
	defer func() {
		if x := recover(); x != nil {
			pan = x
		}
	}()
	if sharedPacker != nil {
		// the same *Packer that packed also unpacks
		return sharedPacker.Unpack(r, dst), nil
	}
	var opts []slug.PackerOption
	for _, a := range allow {
		opts = append(opts, slug.AllowSymlinkTarget(a))
	}
	p, perr := slug.NewPacker(opts...)
	if perr != nil {
		return perr, nil
	}
	return p.Unpack(r, dst), nil
}

func decode(data []byte) (ents []model.DEntry, sizes []int64, ok bool) {
	zr, err := gzip.NewReader(bytes.NewReader(data))
	if err != nil {
		return nil, nil, false
	}
	tr := tar.NewReader(zr)
	for {
		h, err := tr.Next()
		if err == io.EOF {
			// the gzip stream must be complete as well
			if _, err := io.Copy(io.Discard, zr); err != nil {
				return ents, sizes, false
			}
			return ents, sizes, true
		}
		if err != nil {
			return ents, sizes, false
		}
		var body []byte
		if h.Typeflag == tar.TypeReg || h.Typeflag == tar.TypeRegA {
			body, err = io.ReadAll(tr)
			if err != nil {
				return ents, sizes, false
			}
			sizes = append(sizes, h.Size)
		} else if h.Size != 0 {
			// a size recorded in the header of an entry that stores no content still counts
			// towards "the sum of the sizes recorded in the entry headers"
			sizes = append(sizes, h.Size)
		}
		ents = append(ents, model.DEntry{Name: h.Name, Type: h.Typeflag, Mode: h.Mode, MtimeNs: h.ModTime.UnixNano(), Link: h.Linkname, Body: body})
	}
}

func entSig(e model.DEntry) string {
	return fmt.Sprintf("%s|%c|%o|%d|%s|%s", e.Name, e.Type, e.Mode, e.MtimeNs, e.Link, simkit.HashString(string(e.Body)))
}

// Run executes one Pack-world scenario (one OS process per scenario).
func Run(sc *pw.Scenario) *simkit.Outcome {
	out := &simkit.Outcome{World: "pw", Profile: sc.Profile, Seed: sc.Seed}
	out.ScenHash = simkit.HashJSON(sc)
	simkit.ResetCanon()
	log := simkit.NewLog()
	if os.Getuid() != sc.UID {
		out.Harness = fmt.Sprintf("scenario wants uid %d, worker runs as %d", sc.UID, os.Getuid())
		return out
	}
	if sc.Opts.Legacy {
		sc.Opts.Ignore = true // slug.Pack always applies .terraformignore
	}
	// names that are not valid UTF-8 travel in the scenario as @XX@ (JSON cannot carry them)
	for i := range sc.Tree {
		sc.Tree[i].Path = rawBytes(sc.Tree[i].Path)
		sc.Tree[i].Target = rawBytes(sc.Tree[i].Target)
	}
	for i := range sc.Mutations {
		sc.Mutations[i].Path = rawBytes(sc.Mutations[i].Path)
	}
	simkit.WipeArena()
	syscall.Umask(0o022)
	if err := buildArena(sc); err != nil {
		out.Skipped = "arena: " + err.Error()
		return out
	}
	syscall.Umask(sc.Umask)
	t := &tree{src: map[string]*pw.TNode{}, ext: map[string]*pw.TNode{}}
	hasLink, hasOut := false, false
	for i := range sc.Tree {
		n := &sc.Tree[i]
		if n.Root == "src" {
			t.src[n.Path] = n
			if n.Kind == "link" {
				hasLink = true
			}
		} else {
			t.ext[n.Path] = n
			hasOut = true
		}
	}
	rulesText := ""
	if sc.Rules != nil {
		rulesText = *sc.Rules
	}
	rules := model.ParseIgnore(rulesText)
	out.States = []string{simkit.HashString(shapeOf(sc))}

	// ---- history: earlier operations in this process ----
	sharedPacker = nil
	if sc.SharedPacker && !sc.Opts.Legacy {
		sharedPacker, _ = packer(sc.Opts)
	}
	runHistory := func() {
		for _, h := range sc.History {
			sink := simkit.NewSimWriter("hist", simkit.WriterPlan{}, simkit.NewLog(), nil)
			switch {
			case h == "negated-twin-rules":
				// another tree in this process whose rule file has the same patterns with the negation flipped
				if sc.Rules != nil && sc.RulesKind == "" {
					os.MkdirAll("/w/hist6/a/b", 0o755)
					var flipped []string
					for _, l := range strings.Split(*sc.Rules, "\n") {
						t := strings.TrimSpace(l)
						switch {
						case t == "" || strings.HasPrefix(t, "#"):
							flipped = append(flipped, l)
						case strings.HasPrefix(t, "!"):
							flipped = append(flipped, t[1:])
						default:
							flipped = append(flipped, "!"+t)
						}
					}
					os.WriteFile("/w/hist6/.terraformignore", []byte(strings.Join(flipped, "\n")), 0o644)
					for _, n := range []string{"a/x", "a/b/y", "c", "d.txt"} {
						os.WriteFile("/w/hist6/"+n, []byte("h6"), 0o644)
					}
					filepath.Walk("/w/hist6", func(p string, info os.FileInfo, err error) error {
						if err == nil {
							setTimes(p, 1300000002, 0)
						}
						return nil
					})
					o := sc.Opts
					o.Ignore = true
					save := sharedPacker
					sharedPacker = nil
					doPack(o, "/w/hist6", sink)
					sharedPacker = save
				}
			case h == "stale-rules-samelen":
				// this very directory was packed before in this process, when its rule file had
				// other content of the same length and the same modification time
				if sc.Rules != nil && sc.RulesKind == "" {
					old := []byte(*sc.Rules)
					for i, c := range old {
						if (c >= 'a' && c <= 'z') || c == '*' {
							old[i] = 'q'
							break
						}
					}
					os.WriteFile(pw.SrcRoot+"/.terraformignore", old, 0o644)
					setTimes(pw.SrcRoot+"/.terraformignore", 1300000001, 0)
					doPack(sc.Opts, pw.SrcRoot, sink)
					os.WriteFile(pw.SrcRoot+"/.terraformignore", []byte(*sc.Rules), 0o644)
					setTimes(pw.SrcRoot+"/.terraformignore", 1300000001, 0)
					setTimes(pw.SrcRoot, 1300000000, 0)
				}
			case h == "shared:stale-rules":
				// the same Packer packed this very directory before, under another rule file
				if sc.Rules != nil && sc.RulesKind == "" {
					old := "*\n!keep-nothing\n"
					os.WriteFile(pw.SrcRoot+"/.terraformignore", []byte(old), 0o644)
					doPack(sc.Opts, pw.SrcRoot, sink)
					os.WriteFile(pw.SrcRoot+"/.terraformignore", []byte(*sc.Rules), 0o644)
					setTimes(pw.SrcRoot+"/.terraformignore", 1300000001, 0)
					setTimes(pw.SrcRoot, 1300000000, 0)
				}
			case strings.HasPrefix(h, "shared:fail@"):
				// an earlier Pack on the same Packer failed half-way (its writer broke)
				off := 0
				fmt.Sscan(h[len("shared:fail@"):], &off)
				bad := simkit.NewSimWriter("hist-fail", simkit.WriterPlan{Faults: []simkit.Fault{{Off: off, Kind: "err", Sticky: true}}}, simkit.NewLog(), nil)
				doPack(sc.Opts, pw.SrcRoot, bad)
			case h == "shared:worn":
				// the same Packer has served 140 calls on another tree, each following a chain of
				// thirty links outside that tree
				if sharedPacker != nil {
					os.MkdirAll("/w/hist7/src", 0o755)
					os.MkdirAll("/w/hist7/out", 0o755)
					os.WriteFile("/w/hist7/out/end", []byte("h7"), 0o644)
					for c := 0; c < 30; c++ {
						next := fmt.Sprintf("c%02d", c+1)
						if c == 29 {
							next = "end"
						}
						os.Symlink(next, fmt.Sprintf("/w/hist7/out/c%02d", c))
					}
					os.Symlink("../out/c00", "/w/hist7/src/l")
					os.WriteFile("/w/hist7/src/main.tf", []byte("h7"), 0o644)
					for c := 0; c < 140; c++ {
						doPack(sc.Opts, "/w/hist7/src", simkit.NewSimWriter("hist", simkit.WriterPlan{}, simkit.NewLog(), nil))
					}
					out.Probe("packer-worn-by-earlier-calls")
				}
			case h == "shared:hist3":
				// the same Packer serves another root first (its relative allow-list entry means something else there)
				doPack(sc.Opts, "/w/hist3/inner", sink)
			case h == "dot-other-tree":
				// the same spelling "." denotes another tree whose rule file has equal size and mtime
				if sc.Rules != nil {
					os.MkdirAll("/w/hist5", 0o755)
					other := strings.Map(func(r rune) rune {
						switch r {
						case 'a':
							return 'b'
						case 'b':
							return 'a'
						case 'c':
							return 'd'
						case 'd':
							return 'c'
						case 'm':
							return 'n'
						case 't':
							return 'f'
						}
						return r
					}, *sc.Rules)
					os.WriteFile("/w/hist5/.terraformignore", []byte(other), 0o644)
					for _, n := range []string{"a", "b", "c", "d"} {
						os.WriteFile("/w/hist5/"+n, []byte("h5"+n), 0o644)
					}
					for _, n := range []string{"a", "b", "c", "d", ""} {
						setTimes("/w/hist5/"+n, 1300000002, 0)
					}
					setTimes("/w/hist5/.terraformignore", 1300000001, 0)
					os.Chdir("/w/hist5")
					doPack(sc.Opts, ".", sink)
					os.Chdir("/")
				}
			case h == "neg-first":
				doPack(pw.Opts{Ignore: true}, "/w/hist1", sink)
			case h == "empty-rules":
				doPack(pw.Opts{Ignore: true}, "/w/hist2", sink)
			case h == "other-opts":
				o := sc.Opts
				o.Ignore, o.Deref, o.Legacy = !o.Ignore, !o.Deref, false
				doPack(o, pw.SrcRoot, sink)
			case h == "same":
				doPack(sc.Opts, pw.SrcRoot, sink)
			case strings.HasPrefix(h, "chdir:"):
				os.Chdir(h[6:])
			}
			log.Add(0, "history", h)
		}
	}
	// the history precedes every observed pack, or (HistAfter > 0, sequential runs only) the
	// first HistAfter packs run in a process that has seen nothing yet and the rest after it:
	// state that the history leaves behind then shows as a difference between the runs
	histAfter := sc.HistAfter
	if sc.Conc || histAfter >= len(sc.Runs) {
		histAfter = 0
	}
	if histAfter == 0 {
		runHistory()
	}

	// ---- the observed packs ----
	res := make([]*result, len(sc.Runs))
	book := &simkit.TapeBook{Tapes: sc.Tapes, Have: sc.HaveTape}
	var sched *simkit.Sched
	runOne := func(i int, y simkit.Yielder, ps simkit.PipeSched) {
		rn := sc.Runs[i]
		r := &result{}
		res[i] = r
		src := spell(rn.Spelling, rn.Cwd)
		log.Add(i, "op-start", fmt.Sprintf("pack #%d src=%s", i, src))
		w := simkit.NewSimWriter(fmt.Sprintf("out%d", i), rn.Writer, log, y)
		r.meta, r.err, r.pan = doPack(sc.Opts, src, w)
		r.data, r.devErr, r.calls = w.Buf, w.Errored, w.Calls
		for k, v := range w.Fired {
			out.Fault("writer/"+k, v)
		}
		es := "nil"
		if r.err != nil {
			es = r.err.Error()
		}
		log.Add(i, "op-end", fmt.Sprintf("pack #%d err=%s panic=%v bytes=%d", i, es, r.pan, len(r.data)))
	}
	if !sc.Conc {
		for i := range sc.Runs {
			rn := sc.Runs[i]
			if histAfter > 0 && i == histAfter {
				runHistory()
				out.Probe("history-between-runs")
			}
			if err := os.Chdir(rn.Cwd); err != nil {
				out.Harness = "chdir: " + err.Error()
				return out
			}
			if rn.RoundTrip == "pipe" {
				runPipelined(sc, book, i, res, log, out)
				continue
			}
			runOne(i, nil, nil)
		}
	} else {
		os.Chdir(sc.Runs[0].Cwd)
		sched = book.NewSched(log, sc.SchedSeed, "pw/sched", sc.SchedShape)
		for i := range sc.Runs {
			i := i
			sched.Go(fmt.Sprintf("pack%d", i), func(tk *simkit.Task) { runOne(i, sched, sched) })
		}
		for oi, o := range sc.Others {
			o := o
			sched.Go(fmt.Sprintf("other%d-%s", oi, o), func(tk *simkit.Task) {
				w := simkit.NewSimWriter("other-"+o, simkit.WriterPlan{}, log, sched)
				save := sharedPacker
				_ = save
				p := sharedPacker
				if p == nil {
					p, _ = packer(pw.Opts{Ignore: true})
				}
				func() {
					defer func() { recover() }()
					p.Pack("/w/"+o, w)
				}()
				log.Add(tk.ID, "other-pack-done", o)
			})
		}
		if len(sc.Mutations) > 0 {
			sched.Go("mutator", func(tk *simkit.Task) {
				for _, m := range sc.Mutations {
					// let the packer get somewhere first
					for k := 0; k < 3; k++ {
						tk.Yield("mutator-wait")
					}
					p := pw.SrcRoot + "/" + m.Path
					var err error
					switch m.Op {
					case "truncate":
						err = os.Truncate(p, int64(m.Size))
					case "grow":
						var f *os.File
						if f, err = os.OpenFile(p, os.O_WRONLY|os.O_APPEND, 0); err == nil {
							f.Write(bytes.Repeat([]byte("G"), m.Size+1))
							f.Close()
						}
					case "remove":
						err = os.Remove(p)
					case "chmod000":
						err = os.Chmod(p, 0)
					case "replace-with-dir":
						if err = os.Remove(p); err == nil {
							err = os.Mkdir(p, 0o755)
						}
					}
					// the change itself stamps wall-clock times; pin them (they reach archive headers)
					setTimes(p, 1300000100, 0)
					setTimes(filepath.Dir(p), 1300000101, 0)
					log.Add(tk.ID, "mutate", fmt.Sprintf("%s %s size=%d err=%v", m.Op, m.Path, m.Size, err != nil))
					out.Fault("tree-mutation/"+m.Op, 1)
				}
			})
		}
		if len(sc.Chdirs) > 0 {
			sched.Go("chdir", func(tk *simkit.Task) {
				for _, d := range sc.Chdirs {
					tk.Yield("chdir")
					os.Chdir(d)
					log.Add(tk.ID, "chdir", d)
				}
			})
		}
		if err := sched.Run(); err != nil {
			out.Violate("C19", "pack-sched", "deadlock", "concurrent Pack tasks: "+err.Error())
		}
		out.Decisions = sched.Decisions
		out.Inter = sched.InterleavingHash()
		if sched.Decisions > 0 {
			out.Probe("concurrent-packs-interleaved")
		}
	}
	os.Chdir("/")

	// ---- oracles per run ----
	for i, r := range res {
		if r == nil {
			continue
		}
		rn := sc.Runs[i]
		faulty := rn.Writer.CallFault > 0 || len(rn.Writer.Faults) > 0 || rn.PipeBreak > 0
		if r.pan != nil {
			out.Violate("C19", "pack-panic", panicClass(r.pan), fmt.Sprintf("run %d: Pack panicked: %v", i, r.pan))
			continue
		}
		// C12 (Pack): a device error is never swallowed, and no Meta comes with an error
		if r.devErr && r.meta != nil {
			out.Violate("C20", "meta-for-failed-write", "swallowed", fmt.Sprintf("run %d: the writer returned an error, yet Pack returned Meta (%d files, %d bytes) for a slug that was not written completely", i, len(r.meta.Files), r.meta.Size))
		}
		if r.devErr && (r.err == nil || r.meta != nil) {
			out.Violate("C12", "pack-swallowed-write-error", "swallowed", fmt.Sprintf("run %d: the writer returned an error but Pack returned meta=%v err=%v", i, r.meta != nil, r.err))
		}
		if r.err != nil && r.meta != nil {
			out.Violate("C12", "pack-meta-with-error", "meta+err", fmt.Sprintf("run %d: Pack returned both Meta and error %v", i, r.err))
		}
		if sp := sc.Runs[i].Spelling; sp == "not-a-dir" || sp == "link-to-file" {
			if r.err == nil {
				out.Violate("C12", "pack-of-non-directory", "empty-slug", fmt.Sprintf("run %d: the source argument names a regular file (%s); Pack returned no error and an archive of %d bytes", i, sp, len(r.data)))
			}
			continue
		}
		if r.err != nil {
			continue
		}
		if r.meta == nil {
			out.Violate("C20", "meta-nil", "nil", fmt.Sprintf("run %d: Pack returned neither Meta nor error", i))
			continue
		}
		r.ents, r.sizes, r.decOK = decode(r.data)
		if !r.decOK {
			for _, prop := range []string{"C05", "C20", "C02", "C16"} {
				out.Violate(prop, "slug-unreadable", "corrupt", fmt.Sprintf("run %d: Pack succeeded but its output is not a complete, well-formed tar.gz stream", i))
			}
			continue
		}
		checkMeta(out, i, r)
		if len(sc.Mutations) > 0 {
			// the tree moved under the packer: only that Pack told the truth about what it wrote is checked
			out.Probe("pack-succeeded-while-tree-changed")
			continue
		}
		if sc.RulesKind != "" {
			// the rule file could not be read (completely): the built-in rules still apply
			checkBuiltinRules(out, sc, i, r, t)
			continue
		}
		checkIgnore(out, sc, i, r, t, rules)
		checkLinksAndProvenance(out, sc, i, r, t)
		checkDerefComplete(out, sc, i, r, t)
		if !faulty {
			checkModelList(out, sc, i, r, t, rules)
		}
	}
	if len(sc.Mutations) == 0 && sc.RulesKind == "" {
		checkRejections(out, sc, res, t, rules)
		checkSameOutput(out, sc, res)
		checkRoundTrips(out, sc, res, t, rules, log)
	}

	if hasLink || sc.Rules != nil || sc.Conc || len(sc.Runs) > 1 || hasOut {
		out.Nontrivial = true
	}
	for _, rn := range sc.Runs {
		if rn.Spelling != "abs" || rn.Writer.CallFault > 0 || len(rn.Writer.Faults) > 0 {
			out.Nontrivial = true
		}
	}
	out.Tapes = book.Collect()
	out.TraceHash = log.Hash()
	out.Steps = log.Steps
	out.Events = log.Events
	return out
}

func panicClass(p interface{}) string {
	s := fmt.Sprint(p)
	switch {
	case strings.Contains(s, "index out of range"):
		return "index-out-of-range"
	case strings.Contains(s, "nil pointer"):
		return "nil-deref"
	}
	return "panic"
}

func shapeOf(sc *pw.Scenario) string {
	var b strings.Builder
	for _, n := range sc.Tree {
		b.WriteString(n.Root + ":" + n.Path + ":" + n.Kind + ";")
	}
	fmt.Fprintf(&b, "%v", sc.Opts)
	return b.String()
}

// runPipelined runs Pack and Unpack as two scheduled tasks over a SimPipe.
func runPipelined(sc *pw.Scenario, book *simkit.TapeBook, i int, res []*result, log *simkit.Log, out *simkit.Outcome) {
	rn := sc.Runs[i]
	r := &result{}
	res[i] = r
	sched := book.NewSched(log, sc.SchedSeed+uint64(i), "pw/pipe", "random")
	pipe := simkit.NewSimPipe(rn.PipeCap, sched, log)
	pipe.Chunks = rn.Chunks
	pipe.BreakAt = rn.PipeBreak
	r.rtDir = rtDirFor(rn, i)
	tee := &teeWriter{w: pipe.Writer()}
	sched.Go("pack", func(tk *simkit.Task) {
		log.Add(tk.ID, "op-start", fmt.Sprintf("pack #%d (pipelined)", i))
		r.meta, r.err, r.pan = doPack(sc.Opts, spell(rn.Spelling, rn.Cwd), tee)
		tee.w.(io.Closer).Close()
		r.data, r.devErr = tee.buf, tee.errored
		log.Add(tk.ID, "op-end", fmt.Sprintf("pack #%d err=%v", i, r.err))
	})
	sched.Go("unpack", func(tk *simkit.Task) {
		log.Add(tk.ID, "op-start", fmt.Sprintf("unpack #%d (pipelined)", i))
		rd := pipe.Reader()
		r.unpErr, r.unpPan = doUnpack(rd, r.rtDir, sc.Opts.Allow)
		r.unpRan = true
		io.Copy(io.Discard, rd) // drain so that the packer can finish
		pipe.CloseRead()
		log.Add(tk.ID, "op-end", fmt.Sprintf("unpack #%d err=%v", i, r.unpErr))
	})
	if err := sched.Run(); err != nil {
		out.Violate("C19", "pipe-sched", "deadlock", fmt.Sprintf("run %d: pipelined Pack/Unpack: %v", i, err))
	}
	out.Decisions += sched.Decisions
	out.Inter = sched.InterleavingHash()
	for k, v := range pipe.Fired {
		out.Fault("pipe/"+k, v)
	}
	if pipe.MaxFill >= pipe.Cap {
		out.Probe("pipe-filled-to-capacity")
	}
	out.Probe("pipelined-roundtrip")
}

// rtDirFor creates the (empty) round-trip destination of run i.
func rtDirFor(rn pw.PackRun, i int) string {
	d := fmt.Sprintf("/w/rt%d", i)
	if rn.RtAlias {
		os.MkdirAll("/w/real-rt", 0o755)
		if _, err := os.Lstat("/w/alias-rt"); err != nil {
			os.Symlink("real-rt", "/w/alias-rt")
		}
		d = fmt.Sprintf("/w/alias-rt/rt%d", i)
	}
	os.MkdirAll(d, 0o755)
	return d
}

type teeWriter struct {
	w       io.Writer
	buf     []byte
	errored bool
}

func (t *teeWriter) Write(p []byte) (int, error) {
	n, err := t.w.Write(p)
	t.buf = append(t.buf, p[:n]...)
	if err != nil {
		t.errored = true
	}
	return n, err
}

// ---- C20 ----
func checkMeta(out *simkit.Outcome, i int, r *result) {
	var names []string
	var bodySum, hdrSum int64
	for _, e := range r.ents {
		names = append(names, e.Name)
		if e.Type == tar.TypeReg || e.Type == tar.TypeRegA {
			bodySum += int64(len(e.Body))
		}
	}
	for _, s := range r.sizes {
		hdrSum += s
	}
	if strings.Join(names, "\x00") != strings.Join(r.meta.Files, "\x00") || len(names) != len(r.meta.Files) {
		out.Violate("C20", "meta-files", "files", fmt.Sprintf("run %d: Meta.Files %q differs from the slug's entry names %q", i, r.meta.Files, names))
	}
	if r.meta.Size != bodySum || bodySum != hdrSum {
		out.Violate("C20", "meta-size", "size", fmt.Sprintf("run %d: Meta.Size=%d, content bytes stored=%d, header sizes=%d", i, r.meta.Size, bodySum, hdrSum))
	}
	if len(r.sizes) > 0 {
		out.Probe("meta-with-regular-files")
	}
}

// srcPathOf maps an archive entry name back to a src-relative path.
func entryPath(name string) string { return strings.TrimSuffix(name, "/") }

// ---- C03 (Pack side) ----
func checkIgnore(out *simkit.Outcome, sc *pw.Scenario, i int, r *result, t *tree, rules []model.IgRule) {
	shipped := map[string]model.DEntry{}
	for _, e := range r.ents {
		shipped[entryPath(e.Name)] = e
	}
	var paths []string
	for p := range t.src {
		paths = append(paths, p)
	}
	if sc.Rules != nil {
		paths = append(paths, ".terraformignore")
	}
	sort.Strings(paths)
	outOfTreeAbove := func(p string) bool {
		// a path below an in-tree link is not a tree path at all
		return false
	}
	_ = outOfTreeAbove
	for _, p := range paths {
		n := t.src[p]
		kind := "file"
		if n != nil {
			kind = n.Kind
		}
		if kind == "dir" || isSpecial(kind) {
			continue
		}
		// out-of-tree links are replaced or refused, not "shipped as themselves": only their presence by name matters with dereference
		_, present := shipped[p]
		if n != nil && n.Kind == "link" && linkOut(p, n.Target) {
			// dereferenced directories appear only through their children; skip the name itself
			if tn := resolveModel(t, n.Abs(), 0); tn == nil || tn.Kind != "file" {
				continue
			}
		}
		if !sc.Opts.Ignore {
			if !present {
				out.Violate("C03", "ignore-off-filtered", "filtered", fmt.Sprintf("run %d: ignore processing is off but %s is missing from the slug", i, p))
			}
			continue
		}
		ex := model.Excluded(rules, p)
		if ex && present {
			out.Violate("C03", "excluded-shipped", ruleClass(rules, p), fmt.Sprintf("run %d: %s is excluded by the rules %q but appears in the slug", i, p, rulesSrc(rules)))
		}
		if !ex && !present {
			out.Violate("C03", "included-missing", ruleClass(rules, p), fmt.Sprintf("run %d: %s is not excluded by the rules %q but is missing from the slug", i, p, rulesSrc(rules)))
		}
		if ex {
			out.Probe("path-excluded-by-rules")
		}
	}
	// paths that came in through dereferenced out-of-tree directories: judged at their archive path
	if sc.Opts.Ignore && sc.Opts.Deref {
		for _, p := range derefPaths(t, sc.Opts.Allow) {
			_, present := shipped[p.arch]
			ex := model.Excluded(rules, p.arch)
			if ex && present {
				out.Violate("C03", "excluded-shipped", "deref:"+ruleClass(rules, p.arch), fmt.Sprintf("run %d: %s (copied from %s) is excluded by the rules %q at its archive path but appears in the slug", i, p.arch, p.abs, rulesSrc(rules)))
			}
			if !ex && !present {
				out.Violate("C03", "included-missing", "deref:"+ruleClass(rules, p.arch), fmt.Sprintf("run %d: %s (copied from %s) is not excluded by the rules %q at its archive path but is missing", i, p.arch, p.abs, rulesSrc(rules)))
			}
			out.Probe("deref-dir-path-judged")
		}
	}
}

// checkBuiltinRules: when ignore processing is on, the built-in exclusions hold
// whatever happened to the user's rule file.
func checkBuiltinRules(out *simkit.Outcome, sc *pw.Scenario, i int, r *result, t *tree) {
	if !sc.Opts.Ignore {
		return
	}
	def := model.DefaultIgRules()
	for _, e := range r.ents {
		p := entryPath(e.Name)
		if e.Type == tar.TypeDir {
			continue
		}
		if model.Excluded(def, p) {
			out.Violate("C03", "excluded-shipped", "builtin-rules-off", fmt.Sprintf("run %d: %s is excluded by the built-in rules (the rule file is %s) but appears in the slug", i, p, sc.RulesKind))
		}
	}
	out.Probe("unreadable-rule-file")
}

func rulesSrc(rules []model.IgRule) string {
	var s []string
	for _, r := range rules[3:] {
		s = append(s, r.Src)
	}
	return strings.Join(s, " ; ")
}

// ruleClass names the mechanism class of a C03 disagreement: which kind of
// rule decides the path in the reference.
func ruleClass(rules []model.IgRule, p string) string {
	meta := false
	for _, r := range rules[3:] {
		if strings.ContainsAny(r.Src, "+()|^{}[]$") {
			meta = true
		}
	}
	if meta {
		return "regex-metachar-in-rule"
	}
	return "rule-semantics"
}

type dpath struct {
	arch string // archive path
	abs  string
	link string // src path of the in-tree link through which it came
}

func (d dpath) belowExcludedLink(rules []model.IgRule) bool {
	return model.Excluded(rules, d.link) || model.DirSelected(rules, d.link)
}

// derefPaths lists files reachable through in-tree links to out-of-tree
// directories (one level of directory links; nested links inside are skipped).
func derefPaths(t *tree, allow []string) []dpath {
	var outp []dpath
	var links []string
	for p, n := range t.src {
		if n.Kind == "link" && linkOut(p, n.Target) && !allowListed(linkAbs(p, n.Target), allow) {
			links = append(links, p)
		}
	}
	sort.Strings(links)
	for _, lp := range links {
		n := t.src[lp]
		tn, tabs := resolveModelAbs(t, n.Abs(), 0)
		if tn == nil || tn.Kind != "dir" || !strings.HasPrefix(tabs, pw.ExtRoot+"/") {
			continue
		}
		base := tabs[len(pw.ExtRoot)+1:]
		var eps []string
		for ep := range t.ext {
			eps = append(eps, ep)
		}
		sort.Strings(eps)
		for _, ep := range eps {
			en := t.ext[ep]
			if en.Kind == "file" && strings.HasPrefix(ep, base+"/") {
				outp = append(outp, dpath{arch: lp + "/" + ep[len(base)+1:], abs: pw.ExtRoot + "/" + ep, link: lp})
			}
		}
	}
	return outp
}

func linkAbs(p, target string) string {
	if strings.HasPrefix(target, "/") {
		return filepath.Clean(target)
	}
	return filepath.Join(filepath.Dir(pw.SrcRoot+"/"+p), target)
}

// linkOut: is the link at src path p with this target out-of-tree (lexically)?
func linkOut(p, target string) bool {
	var abs string
	if strings.HasPrefix(target, "/") {
		abs = filepath.Clean(target)
	} else {
		abs = filepath.Join(filepath.Dir(pw.SrcRoot+"/"+p), target)
	}
	return !simkit.Under(abs, pw.SrcRoot)
}

// resolveModel follows links in the model from an absolute path.
func resolveModel(t *tree, abs string, hops int) *pw.TNode {
	n, _ := resolveModelAbs(t, abs, hops)
	return n
}

func resolveModelAbs(t *tree, abs string, hops int) (*pw.TNode, string) {
	if hops > 20 {
		return nil, ""
	}
	// resolve component-wise so that links in the middle are followed
	segs := simkit.Segs(filepath.Clean(abs))
	cur := ""
	for i, s := range segs {
		next := cur + "/" + s
		n := t.lookupAbs(next)
		if n == nil {
			return nil, ""
		}
		if n.Kind == "link" {
			var tgt string
			if strings.HasPrefix(n.Target, "/") {
				tgt = n.Target
			} else {
				tgt = filepath.Join(cur, n.Target)
			}
			rest := strings.Join(segs[i+1:], "/")
			if rest != "" {
				tgt = tgt + "/" + rest
			}
			return resolveModelAbs(t, tgt, hops+1)
		}
		cur = next
	}
	return t.lookupAbs(cur), cur
}

// reachableOut collects the tokens of out-of-tree files that a dereferencing
// Pack may legitimately copy: everything reachable from in-tree links that
// point outside, transitively through directories and further links.
func reachableOut(t *tree) map[string]bool {
	toks := map[string]bool{}
	seen := map[string]bool{}
	var visit func(abs string, depth int)
	visit = func(abs string, depth int) {
		if depth > 12 {
			return
		}
		n, rabs := resolveModelAbs(t, abs, 0)
		if n == nil || seen[rabs] {
			return
		}
		seen[rabs] = true
		switch n.Kind {
		case "file":
			if strings.HasPrefix(n.Tok, "OUT-") {
				toks[n.Tok] = true
			}
		case "dir":
			var m map[string]*pw.TNode
			var base, root string
			if strings.HasPrefix(rabs, pw.ExtRoot) {
				m, root = t.ext, pw.ExtRoot
			} else if strings.HasPrefix(rabs, pw.SrcRoot) {
				m, root = t.src, pw.SrcRoot
			} else {
				return
			}
			base = strings.TrimPrefix(strings.TrimPrefix(rabs, root), "/")
			for p := range m {
				if base == "" || strings.HasPrefix(p, base+"/") {
					visit(root+"/"+p, depth+1)
				}
			}
		}
	}
	for p, n := range t.src {
		if n.Kind == "link" && linkOut(p, n.Target) {
			visit(n.Abs(), 0)
		}
	}
	return toks
}

// ---- C05 (a), (b) ----
func checkLinksAndProvenance(out *simkit.Outcome, sc *pw.Scenario, i int, r *result, t *tree) {
	allowedTok := map[string]bool{}
	if sc.Opts.Deref {
		allowedTok = reachableOut(t)
	}
	for _, e := range r.ents {
		if e.Type == tar.TypeReg || e.Type == tar.TypeRegA {
			if idx := bytes.Index(e.Body, []byte("OUT-")); idx >= 0 {
				end := bytes.IndexByte(e.Body[idx:], ';')
				tok := string(e.Body[idx:])
				if end >= 0 {
					tok = string(e.Body[idx : idx+end+1])
				}
				if !allowedTok[tok] {
					out.Violate("C05", "outside-content", "leak", fmt.Sprintf("run %d: entry %s carries out-of-tree content %s (dereference=%v)", i, e.Name, tok, sc.Opts.Deref))
				} else {
					out.Probe("dereferenced-content-copied")
				}
			}
		}
		if e.Type == tar.TypeSymlink {
			p := entryPath(e.Name)
			if strings.HasPrefix(e.Link, "/") {
				abs := filepath.Clean(e.Link)
				if !simkit.Under(abs, pw.SrcRoot) && !allowListed(abs, sc.Opts.Allow) {
					out.Violate("C05", "out-link-stored", "absolute", fmt.Sprintf("run %d: link entry %s -> %q points outside the source and is not allow-listed", i, p, e.Link))
				}
				continue
			}
			// relative: read at its own position in the archive
			depth := len(simkit.Segs(filepath.Dir(p)))
			if filepath.Dir(p) == "." {
				depth = 0
			}
			escaped := false
			for _, s := range simkit.Segs(e.Link) {
				switch s {
				case ".":
				case "..":
					depth--
					if depth < 0 {
						escaped = true
					}
				default:
					depth++
				}
			}
			final := filepath.Join("/w/src", filepath.Dir(p), e.Link)
			_, inTree := t.src[p]
			if !inTree && len(sc.Opts.Allow) > 0 {
				// a link inside a dereferenced directory whose on-disk target the caller
				// allow-listed is kept as written; where it leads from the archive position
				// is then the caller's business
				continue
			}
			if !simkit.Under(final, pw.SrcRoot) {
				if !allowListed(final, sc.Opts.Allow) {
					cls := "relative"
					if _, ok := t.src[p]; !ok {
						cls = "relative-in-dereferenced-dir"
					}
					out.Violate("C05", "out-link-stored", cls, fmt.Sprintf("run %d: link entry %s -> %q leaves the archive root when read at its own position", i, p, e.Link))
				}
			} else if escaped && !allowListed(final, sc.Opts.Allow) {
				// it comes back only by way of the root's own directory name, which is not part of the archive
				cls := "relative-climbs-above-root"
				if _, ok := t.src[p]; !ok {
					cls = "relative-in-dereferenced-dir"
				}
				out.Violate("C05", "out-link-stored", cls, fmt.Sprintf("run %d: link entry %s -> %q climbs above the archive root when read at its own position (it re-enters only through the source directory's own name)", i, p, e.Link))
			}
			out.Probe("link-entry-stored")
		}
	}
}

// checkDerefComplete: with dereferencing, what lies behind an out-of-tree link
// is copied into the slug - also behind links nested in a dereferenced directory.
func checkDerefComplete(out *simkit.Outcome, sc *pw.Scenario, i int, r *result, t *tree) {
	if !sc.Opts.Deref {
		return
	}
	if sc.Opts.Ignore && sc.Rules != nil {
		return // which of these paths the rules remove is C03's business
	}
	byName := map[string]model.DEntry{}
	for _, e := range r.ents {
		byName[entryPath(e.Name)] = e
	}
	expectFile := func(arch, abs, tok string) {
		if strings.Contains("/"+arch+"/", "/.git/") || strings.Contains("/"+arch+"/", "/.terraform/") {
			return
		}
		e, ok := byName[arch]
		switch {
		case !ok:
			out.Violate("C05", "deref-incomplete", "missing", fmt.Sprintf("run %d: dereferencing is on but %s (a copy of %s) is missing from the slug", i, arch, abs))
		case e.Type == tar.TypeSymlink:
			out.Violate("C05", "deref-incomplete", "stored-as-link", fmt.Sprintf("run %d: %s points out of the tree (to %s) and dereferencing is on, but it is stored as a link -> %q instead of a copy", i, arch, abs, e.Link))
		case !bytes.Contains(e.Body, []byte(tok)):
			out.Violate("C05", "deref-incomplete", "wrong-content", fmt.Sprintf("run %d: %s should be a copy of %s", i, arch, abs))
		default:
			out.Probe("deref-copy-verified")
		}
	}
	var links []string
	for p, n := range t.src {
		if n.Kind == "link" && linkOut(p, n.Target) && !allowListed(linkAbs(p, n.Target), sc.Opts.Allow) {
			links = append(links, p)
		}
	}
	sort.Strings(links)
	for _, lp := range links {
		n := t.src[lp]
		tn, tabs := resolveModelAbs(t, n.Abs(), 0)
		if tn == nil {
			continue
		}
		if tn.Kind == "file" && strings.HasPrefix(tn.Tok, "OUT-") {
			expectFile(lp, tabs, tn.Tok)
			continue
		}
		if tn.Kind != "dir" || !strings.HasPrefix(tabs, pw.ExtRoot+"/") {
			continue
		}
		base := tabs[len(pw.ExtRoot)+1:]
		var eps []string
		for ep := range t.ext {
			eps = append(eps, ep)
		}
		sort.Strings(eps)
		for _, ep := range eps {
			en := t.ext[ep]
			if !strings.HasPrefix(ep, base+"/") {
				continue
			}
			arch := lp + "/" + ep[len(base)+1:]
			// skip anything below a nested link (only the first level of nesting is predicted)
			nestedBelowLink := false
			for q := ep; strings.Contains(q, "/"); {
				q = q[:strings.LastIndex(q, "/")]
				if len(q) > len(base) {
					if x := t.ext[q]; x != nil && x.Kind == "link" {
						nestedBelowLink = true
					}
				}
			}
			if nestedBelowLink {
				continue
			}
			switch en.Kind {
			case "file":
				if strings.HasPrefix(en.Tok, "OUT-") {
					expectFile(arch, pw.ExtRoot+"/"+ep, en.Tok)
				}
			case "link":
				// judged where it lives on disk
				var abs string
				if strings.HasPrefix(en.Target, "/") {
					abs = filepath.Clean(en.Target)
				} else {
					abs = filepath.Join(filepath.Dir(pw.ExtRoot+"/"+ep), en.Target)
				}
				if simkit.Under(abs, pw.SrcRoot) || allowListed(abs, sc.Opts.Allow) {
					continue
				}
				if x, xabs := resolveModelAbs(t, pw.ExtRoot+"/"+ep, 0); x != nil && x.Kind == "file" && strings.HasPrefix(x.Tok, "OUT-") {
					expectFile(arch, xabs, x.Tok)
				}
			}
		}
	}
}

func allowListed(abs string, allow []string) bool {
	for _, a := range allow {
		ap := a
		if !strings.HasPrefix(ap, "/") {
			ap = filepath.Join(pw.SrcRoot, ap)
		}
		if simkit.Under(abs, filepath.Clean(ap)) {
			return true
		}
	}
	return false
}

// ---- C05 (c): an out-of-tree link without dereferencing must be refused ----
func checkRejections(out *simkit.Outcome, sc *pw.Scenario, res []*result, t *tree, rules []model.IgRule) {
	if sc.Opts.Deref {
		return
	}
	var bad []string
	for p, n := range t.src {
		if n.Kind != "link" || !linkOut(p, n.Target) {
			continue
		}
		var abs string
		if strings.HasPrefix(n.Target, "/") {
			abs = filepath.Clean(n.Target)
		} else {
			abs = filepath.Join(filepath.Dir(pw.SrcRoot+"/"+p), n.Target)
		}
		if allowListed(abs, sc.Opts.Allow) {
			continue
		}
		// only links the walk certainly reaches
		if sc.Opts.Ignore {
			if sc.Rules != nil || strings.Contains("/"+p+"/", "/.git/") || strings.Contains("/"+p+"/", "/.terraform/") {
				continue
			}
		}
		bad = append(bad, p)
	}
	if len(bad) == 0 {
		return
	}
	sort.Strings(bad)
	for i, r := range res {
		if r == nil || r.pan != nil || r.devErr {
			continue
		}
		if rn := sc.Runs[i]; rn.Spelling == "symlink-rel" && (rn.Cwd != "/w" || sc.Conc || histChdir(sc)) {
			continue // the source itself may not resolve (known finding of C16): nothing is reached
		}
		if sp := sc.Runs[i].Spelling; sp == "symlink-loop" || sp == "not-a-dir" || sp == "link-to-file" {
			continue // no tree is ever reached through such a source argument
		}
		out.Probe("out-of-tree-link-without-deref")
		var ise *slug.IllegalSlugError
		if r.err == nil {
			out.Violate("C05", "out-link-accepted", "accepted", fmt.Sprintf("run %d: tree has out-of-tree link(s) %v, dereference is off, nothing allow-listed, yet Pack succeeded", i, bad))
		} else if errors.Is(r.err, os.ErrPermission) {
			// the walk did not get as far as the link: a directory on the way cannot be searched by
			// this user (the hostile profile makes such trees); a failure reported as a failure
			out.Probe("pack-stopped-by-permissions-before-the-link")
		} else if !errors.As(r.err, &ise) {
			// a failure before the link is reached (unreadable file etc.) would be legitimate,
			// but generated trees have none for the running uid
			out.Violate("C12", "pack-policy-error-kind", "not-illegal-slug", fmt.Sprintf("run %d: out-of-tree link(s) %v refused with a non-illegal-slug error: %v", i, bad, r.err))
			// (C05 names the error too: without dereferencing Pack fails with an illegal-slug error)
			out.Violate("C05", "pack-policy-error-kind", "not-illegal-slug", fmt.Sprintf("run %d: out-of-tree link(s) %v refused with a non-illegal-slug error: %v", i, bad, r.err))
		} else if r.meta != nil {
			out.Violate("C05", "out-link-meta", "meta", fmt.Sprintf("run %d: Pack refused an out-of-tree link but returned Meta", i))
		}
	}
}

// ---- C16: same tree + options => same slug, whatever spelling/cwd/history/concurrency ----
func checkSameOutput(out *simkit.Outcome, sc *pw.Scenario, res []*result) {
	out.Digests = make([]string, len(res))
	for i := range out.Digests {
		out.Digests[i] = "-"
	}
	defer func() {
		if len(sc.Expect) != len(res) {
			return
		}
		for i, d := range out.Digests {
			if d == "-" || sc.Expect[i] == "-" {
				continue
			}
			if d == sc.Expect[i] {
				out.Probe("same-output-as-fresh-process")
				continue
			}
			cls := "history-fresh-process"
			if rn := sc.Runs[i]; rn.Spelling == "symlink-rel" && (rn.Cwd != "/w" || sc.Conc || histChdir(sc)) {
				cls = "root-symlink-relative-target"
			}
			out.Violate("C16", "output-differs", cls, fmt.Sprintf("run %d (%s, cwd %s) after history %v differs from the same run in a fresh process without that history (%s)", i, sc.Runs[i].Spelling, sc.Runs[i].Cwd, sc.History, errOf(res[i])))
		}
	}()
	ref := -1
	var refSig []string
	order := make([]int, 0, len(res))
	for i := range res {
		if sc.Runs[i].Spelling != "symlink-rel" {
			order = append(order, i)
		}
	}
	for i := range res {
		if sc.Runs[i].Spelling == "symlink-rel" {
			order = append(order, i)
		}
	}
	for _, i := range order {
		r := res[i]
		if r == nil || r.pan != nil {
			continue
		}
		rn := sc.Runs[i]
		if rn.Writer.CallFault > 0 || len(rn.Writer.Faults) > 0 || rn.PipeBreak > 0 {
			continue
		}
		var sig []string
		if r.err != nil {
			sig = []string{"ERROR"}
		} else {
			if !r.decOK {
				continue
			}
			for _, e := range r.ents {
				sig = append(sig, entSig(e))
			}
		}
		out.Digests[i] = simkit.HashString(strings.Join(sig, "\n"))
		if ref < 0 {
			ref, refSig = i, sig
			continue
		}
		if strings.Join(sig, "\n") != strings.Join(refSig, "\n") {
			a, b := sc.Runs[ref], rn
			cls := "differs"
			// a source that is a symlink with a relative target is resolved against
			// the working directory; it only comes out right when cwd is the link's directory
			cwdDep := func(x pw.PackRun) bool {
				return x.Spelling == "symlink-rel" && (x.Cwd != "/w" || (sc.Conc && len(sc.Chdirs) > 0) || histChdir(sc))
			}
			switch {
			case cwdDep(a) || cwdDep(b):
				cls = "root-symlink-relative-target"
			case a.Spelling != b.Spelling || a.Cwd != b.Cwd:
				cls = "spelling-or-cwd"
			case sc.Conc:
				cls = "concurrency"
			case len(sc.History) > 0:
				cls = "history"
			}
			out.Violate("C16", "output-differs", cls, fmt.Sprintf("runs %d (%s, cwd %s) and %d (%s, cwd %s) of the same tree and options differ: %s vs %s (history %v, concurrent %v)",
				ref, a.Spelling, a.Cwd, i, b.Spelling, b.Cwd, firstDiff(refSig, sig), errOf(res[i]), sc.History, sc.Conc))
		} else {
			out.Probe("same-output-confirmed")
		}
	}
}

func histChdir(sc *pw.Scenario) bool {
	for _, h := range sc.History {
		if strings.HasPrefix(h, "chdir:") {
			return true
		}
	}
	return false
}

func errOf(r *result) string {
	if r.err != nil {
		return "err=" + r.err.Error()
	}
	return "ok"
}

func firstDiff(a, b []string) string {
	for i := 0; i < len(a) || i < len(b); i++ {
		var x, y string
		if i < len(a) {
			x = a[i]
		}
		if i < len(b) {
			y = b[i]
		}
		if x != y {
			return fmt.Sprintf("entry %d: %q vs %q", i, x, y)
		}
	}
	return "equal"
}

// ---- C16 (model list): for trees without out-of-tree links the file/link
// entries are exactly the model's, in depth-first lexical order ----
func checkModelList(out *simkit.Outcome, sc *pw.Scenario, i int, r *result, t *tree, rules []model.IgRule) {
	for p, n := range t.src {
		if n.Kind == "link" && linkOut(p, n.Target) {
			return
		}
	}
	type want struct {
		name string
		n    *pw.TNode
	}
	var exp []want
	var walk func(dir string)
	walk = func(dir string) {
		var kids []string
		for p := range t.src {
			parent := ""
			if k := strings.LastIndex(p, "/"); k >= 0 {
				parent = p[:k]
			}
			if parent == dir {
				kids = append(kids, p)
			}
		}
		if dir == "" && sc.Rules != nil {
			kids = append(kids, ".terraformignore")
		}
		sort.Slice(kids, func(a, b int) bool { return filepath.Base(kids[a]) < filepath.Base(kids[b]) })
		for _, p := range kids {
			n := t.src[p]
			if n == nil { // the rule file
				if !sc.Opts.Ignore || !model.Excluded(rules, p) {
					exp = append(exp, want{p, &pw.TNode{Kind: "file", Mode: 0o644, Sec: 1300000001, Tok: *sc.Rules}})
				}
				continue
			}
			switch n.Kind {
			case "dir":
				walk(p)
			case "file", "link":
				if !sc.Opts.Ignore || !model.Excluded(rules, p) {
					exp = append(exp, want{p, n})
				}
			}
		}
	}
	walk("")
	var got []model.DEntry
	for _, e := range r.ents {
		if e.Type != tar.TypeDir {
			got = append(got, e)
		}
	}
	// compare sequence of names first (C03 reports membership; here order and attributes)
	gi := 0
	for _, w := range exp {
		// find w in got at or after gi
		found := -1
		for k := gi; k < len(got); k++ {
			if got[k].Name == w.name {
				found = k
				break
			}
		}
		if found < 0 {
			// either missing (C03 reports it) or out of order
			for k := 0; k < gi; k++ {
				if got[k].Name == w.name {
					out.Violate("C16", "entry-order", "order", fmt.Sprintf("run %d: entry %s appears before its depth-first lexical position", i, w.name))
				}
			}
			continue
		}
		gi = found + 1
		e := got[found]
		switch w.n.Kind {
		case "file":
			if e.Type != tar.TypeReg {
				out.Violate("C16", "entry-attrs", "type", fmt.Sprintf("run %d: %s has type %c, tree has a regular file", i, w.name, e.Type))
				continue
			}
			if !bytes.Equal(e.Body, w.n.Body()) {
				out.Violate("C16", "entry-attrs", "content", fmt.Sprintf("run %d: %s has %d bytes, tree has %d", i, w.name, len(e.Body), len(w.n.Body())))
			}
			if w.name != ".terraformignore" {
				if int(e.Mode) != w.n.Mode&0o777 {
					out.Violate("C16", "entry-attrs", "mode", fmt.Sprintf("run %d: %s has mode %o, tree has %o", i, w.name, e.Mode, w.n.Mode))
				}
				if e.MtimeNs != roundSec(w.n.Sec, w.n.Nsec)*1e9 {
					out.Violate("C16", "entry-attrs", "mtime", fmt.Sprintf("run %d: %s has mtime %d, tree has %d.%09d", i, w.name, e.MtimeNs, w.n.Sec, w.n.Nsec))
				}
			}
		case "link":
			sameText := e.Link == w.n.Target
			if !sameText && e.Type == tar.TypeSymlink && !strings.HasPrefix(w.n.Target, "/") {
				// a target that as text climbs above the root (and re-enters by the source
				// directory's own name) cannot be stored as written; any spelling that names the
				// same path from the entry's position is right
				d := filepath.Dir(pw.SrcRoot + "/" + w.name)
				sameText = filepath.Join(d, e.Link) == filepath.Join(d, w.n.Target) && !simkit.Under(filepath.Join(d, "x"), pw.SrcRoot+"/\x00") && climbs(filepath.Dir(w.name), w.n.Target)
			}
			if e.Type != tar.TypeSymlink || !sameText {
				out.Violate("C16", "entry-attrs", "link", fmt.Sprintf("run %d: %s is type %c -> %q, tree has link -> %q", i, w.name, e.Type, e.Link, w.n.Target))
			}
		}
	}
	out.Probe("model-list-compared")
}

// climbs: does target, read from relative directory dir, rise above the tree root?
func climbs(dir, target string) bool {
	depth := 0
	if dir != "." && dir != "" {
		depth = len(simkit.Segs(dir))
	}
	for _, s := range simkit.Segs(target) {
		switch s {
		case ".":
		case "..":
			depth--
			if depth < 0 {
				return true
			}
		default:
			depth++
		}
	}
	return false
}

func roundSec(sec, nsec int64) int64 {
	return time.Unix(sec, nsec).Round(time.Second).Unix()
}

// ---- C02 / C05 (d): feed the slug back into Unpack ----
func checkRoundTrips(out *simkit.Outcome, sc *pw.Scenario, res []*result, t *tree, rules []model.IgRule, log *simkit.Log) {
	for i, r := range res {
		rn := sc.Runs[i]
		if r == nil || rn.RoundTrip == "" || r.pan != nil {
			continue
		}
		if rn.RoundTrip == "seq" {
			if r.err != nil || !r.decOK {
				continue
			}
			r.rtDir = rtDirFor(rn, i)
			rd := simkit.NewSimReader(fmt.Sprintf("rt%d", i), r.data, simkit.ReaderPlan{Chunks: rn.Chunks}, log, nil)
			log.Add(i, "op-start", fmt.Sprintf("unpack #%d", i))
			r.unpErr, r.unpPan = doUnpack(rd, r.rtDir, sc.Opts.Allow)
			r.unpRan = true
			log.Add(i, "op-end", fmt.Sprintf("unpack #%d err=%v", i, r.unpErr))
		}
		if !r.unpRan {
			continue
		}
		if r.unpPan != nil {
			out.Violate("C19", "unpack-panic", "panic", fmt.Sprintf("run %d: Unpack of Pack's output panicked: %v", i, r.unpPan))
			continue
		}
		if r.err != nil || rn.PipeBreak > 0 {
			// Pack failed (or the pipe broke): Unpack must not report success on a partial stream
			if r.unpErr == nil && rn.RoundTrip == "pipe" && (r.err != nil) {
				out.Violate("C12", "unpack-ok-on-failed-pack", "partial", fmt.Sprintf("run %d: Pack failed (%v) but the pipelined Unpack of its partial output returned nil", i, r.err))
			}
			continue
		}
		allRel := true
		inClass := true // C02 tree class: links relative and inside the tree
		for p, n := range t.src {
			if n.Kind == "link" {
				if strings.HasPrefix(n.Target, "/") {
					allRel = false
					inClass = false
				}
				if linkOut(p, n.Target) {
					inClass = false
				}
			}
		}
		for _, n := range t.ext {
			if n.Kind == "link" && strings.HasPrefix(n.Target, "/") {
				allRel = false
			}
		}
		if r.unpErr != nil && len(sc.Opts.Allow) > 0 && !inClass {
			// an allow-listed out-of-tree link is stored as it is; another destination need not accept it
			continue
		}
		if r.unpErr != nil {
			if inClass {
				out.Violate("C02", "rt-unpack-rejected", "rejected", fmt.Sprintf("run %d: the tree has only regular files, directories and relative in-tree links, Pack succeeded, but Unpack refuses the slug: %v", i, r.unpErr))
			}
			if allRel {
				cls := "relative-links"
				if !inClass {
					cls = "relative-out-links"
				}
				out.Violate("C05", "pack-output-rejected", cls, fmt.Sprintf("run %d: every link is relative and Pack succeeded, but Unpack refuses the slug: %v", i, r.unpErr))
			}
			continue
		}
		out.Probe("roundtrip-unpacked")
		if !inClass {
			continue
		}
		compareRoundTrip(out, sc, i, r, t, rules)
	}
}

func compareRoundTrip(out *simkit.Outcome, sc *pw.Scenario, i int, r *result, t *tree, rules []model.IgRule) {
	got := uwrun.ListTree(r.rtDir)
	var paths []string
	for p := range t.src {
		paths = append(paths, p)
	}
	sort.Strings(paths)
	expected := map[string]bool{}
	for _, p := range paths {
		n := t.src[p]
		ig := sc.Opts.Ignore
		switch n.Kind {
		case "fifo", "sock", "dev":
			if _, ok := got[p]; ok {
				out.Violate("C02", "special-shipped", n.Kind, fmt.Sprintf("run %d: special file %s (%s) came out of the round trip", i, p, n.Kind))
			}
			expected[p] = true
			continue
		case "dir":
			// the statement fixes the fate of files; a directory is compared only
			// when no rule (negated or not) touches it or an ancestor
			if ig && dirTouched(rules, p) {
				expected[p] = true // unchecked: may exist as a parent
				continue
			}
		default:
			if ig && model.Excluded(rules, p) {
				if _, ok := got[p]; ok {
					out.Violate("C02", "excluded-present", ruleClass(rules, p), fmt.Sprintf("run %d: %s is excluded by the ignore rules but came out of the round trip", i, p))
				}
				continue
			}
		}
		expected[p] = true
		g, ok := got[p]
		if !ok {
			cls := "missing"
			if sc.Opts.Ignore && sc.Rules != nil {
				cls = "missing:" + ruleClass(rules, p)
			}
			if n.Kind == "dir" {
				cls = "missing-dir"
				empty := true
				for q := range t.src {
					if strings.HasPrefix(q, p+"/") {
						empty = false
					}
				}
				if empty {
					cls = "missing-empty-dir"
				}
			}
			out.Violate("C02", "rt-missing", cls, fmt.Sprintf("run %d: %s (%s) is missing after Pack+Unpack", i, p, n.Kind))
			continue
		}
		wantKind := map[string]byte{"dir": 'd', "file": 'f', "link": 'l'}[n.Kind]
		if g.Kind != wantKind {
			out.Violate("C02", "rt-kind", "kind", fmt.Sprintf("run %d: %s is %c after the round trip, source has %s", i, p, g.Kind, n.Kind))
			continue
		}
		switch n.Kind {
		case "file":
			if !bytes.Equal(g.Body, n.Body()) {
				out.Violate("C02", "rt-content", "content", fmt.Sprintf("run %d: %s content differs after the round trip (%d vs %d bytes)", i, p, len(g.Body), len(n.Body())))
			}
			fallthrough
		case "dir":
			if int(g.Mode) != n.Mode&0o777 {
				out.Violate("C02", "rt-mode", n.Kind+"-mode", fmt.Sprintf("run %d: %s has mode %o after the round trip, source %o", i, p, g.Mode, n.Mode))
			}
			if g.MtimeNs != roundSec(n.Sec, n.Nsec)*1e9 {
				out.Violate("C02", "rt-mtime", n.Kind+"-mtime", fmt.Sprintf("run %d: %s has mtime %d after the round trip, source %d.%09d (expected %d s)", i, p, g.MtimeNs, n.Sec, n.Nsec, roundSec(n.Sec, n.Nsec)))
			}
		case "link":
			if g.Target != n.Target {
				a := filepath.Join("/", filepath.Dir(p), g.Target)
				b := filepath.Join("/", filepath.Dir(p), n.Target)
				if a != b {
					out.Violate("C02", "rt-target", "target", fmt.Sprintf("run %d: link %s -> %q after the round trip, source -> %q", i, p, g.Target, n.Target))
				}
			}
		}
	}
	if sc.Rules != nil {
		expected[".terraformignore"] = true
	}
	var extra []string
	for p := range got {
		if !expected[p] {
			extra = append(extra, p)
		}
	}
	sort.Strings(extra)
	for _, p := range extra {
		if _, known := t.src[p]; known {
			continue // excluded file present: reported above
		}
		out.Violate("C02", "rt-extra", "extra", fmt.Sprintf("run %d: %s came out of the round trip but is not in the source tree", i, p))
	}
	out.Probe("roundtrip-compared")
}

func dirTouched(rules []model.IgRule, p string) bool {
	for {
		if model.Touches(rules, p) {
			return true
		}
		i := strings.LastIndex(p, "/")
		if i < 0 {
			return false
		}
		p = p[:i]
	}
}
