package uw

import (
	"strings"

	"verif/sim/model"
	"verif/sim/simkit"
)

var segsU = []string{"a", "b", "c", "d"}

var fileModes = []int64{0o644, 0o600, 0o444, 0o400, 0o755, 0o000, 0o777, 0o200, 0o111, 0o640}
var dirModes = []int64{0o755, 0o700, 0o555, 0o500, 0o777, 0o711, 0o750, 0o600, 0o400, 0o000}
var nsecs = []int64{0, 400000000, 500000000, 600000000, 123456789}
var formats = []string{"auto", "ustar", "pax", "gnu"}
var chunkPlans = [][]int{nil, {1}, {7}, {512}, {4096}, {1, 2, 3, 5, 7}, {13}, {511, 513}}

// Profiles:
//   wellformed  strict C15 workload (also base of C12 sweeps)
//   small       index-decoded short sequences over a 6-path universe (C15)
//   hostile     adversarial names / link targets / orders (C01, C04)
//   mixed       hostile + reader faults + several archives into one dst
//   rawmut      header mutations with repaired checksums, truncations (C19)

// Gen builds the scenario for (seed, profile). It is pure.
func Gen(seed uint64, profile string) *Scenario {
	r := simkit.NewRNG(seed, "uw/cfg")
	sc := &Scenario{World: "uw", Profile: profile, Seed: seed}
	sc.UID = 0
	if r.Chance(1, 2) {
		sc.UID = 65534
	}
	sc.Umask = simkit.Pick(r, []int{0o022, 0o022, 0o000, 0o027, 0o077})
	switch r.Intn(10) {
	case 0:
		sc.Dst = "/w/dst/"
	case 1:
		sc.Dst = "/w/deep/er/dst"
	case 2:
		sc.Dst = "/w/alias/dst"
	case 4:
		// nothing else lives in the parent directory of the destination
		sc.Dst = "/w/lone/ly/dst"
	case 3:
		// the destination itself is a symbolic link to a directory
		sc.Dst = simkit.Pick(simkit.NewRNG(seed, "uw/dstlink"), []string{"/w/dstlink", "/w/dstlink/", "/w/rel/current"})
	default:
		sc.Dst = "/w/dst"
	}
	switch profile {
	case "small":
		sc.Dst = "/w/dst"
		sc.Archives = []Archive{genSmall(seed)}
		sc.UID = []int{0, 65534}[seed%2]
	case "wellformed":
		n := 1
		if r.Chance(1, 4) {
			n = 2 + r.Intn(2)
		}
		if simkit.NewRNG(seed, "uw/wf-allow").Chance(1, 10) {
			// links to an allow-listed place outside are part of a well-formed archive for this Packer
			sc.Allow = []string{"/w/ext"}
		}
		st := newGenState(sc)
		for i := 0; i < n; i++ {
			wipe := i > 0 && r.Chance(1, 3)
			if wipe {
				st = newGenState(sc)
			}
			ar := genWellformed(simkit.NewRNG(seed, "uw/arch"+string(rune('0'+i))), st)
			ar.Wipe = wipe
			sc.Archives = append(sc.Archives, ar)
		}
		sc.SharedPacker = r.Chance(1, 3)
		if n > 1 && r.Chance(1, 3) {
			// an earlier call that fails half-way (an entry Unpack must refuse) precedes the well-formed ones
			bad := Archive{Format: "auto", Entries: []Entry{
				{Name: "a/", Type: "dir", Mode: 0o500, Sec: 981173106},
				{Name: "b/", Type: "dir", Mode: 0o700, Sec: 981173107},
				{Name: "a/x", Type: "reg", Mode: 0o600, Sec: 981173108, Body: "OLD;"},
				{Name: simkit.Pick(r, []string{"pipe", "../escape", "a/hard"}), Type: simkit.Pick(r, []string{"fifo", "reg", "hard"}), Mode: 0o644, Sec: 981173109, Link: "a/x"},
			}}
			if bad.Entries[3].Name == "../escape" {
				bad.Entries[3].Type = "reg"
			}
			bad.Wipe = false
			sc.Archives = append([]Archive{bad}, sc.Archives...)
			sc.Archives[1].Wipe = true
			sc.FailFirst = true
		}
	case "hostile", "mixed":
		if r.Chance(1, 12) {
			sc.Allow = []string{simkit.Pick(r, []string{"/w/ext", "/w/ext/dir", "../victim", "../shared", "../shared", "../shared/", ".", "../../shared", "../../w/shared", ""})}
		}
		sc.SharedPacker = r.Chance(1, 3)
		n := 1
		if r.Chance(1, 4) {
			n = 2 + r.Intn(2)
		}
		for i := 0; i < n; i++ {
			ar := genHostile(simkit.NewRNG(seed, "uw/arch"+string(rune('0'+i))))
			if profile == "mixed" {
				addReaderFaults(simkit.NewRNG(seed, "uw/fault"+string(rune('0'+i))), &ar)
			}
			sc.Archives = append(sc.Archives, ar)
		}
		if ar := simkit.NewRNG(seed, "uw/allow-recipe"); len(sc.Allow) == 1 && sc.Allow[0] != "." && ar.Chance(1, 2) {
			// a link to the allow-listed place (legitimate), then entries that name things by way of it
			tgt := strings.TrimRight(sc.Allow[0], "/")
			l := simkit.Pick(ar, []string{"L", "a", "b/L"})
			pre := []Entry{{Name: l, Type: "sym", Mode: 0o777, Sec: 1000000000, Link: tgt}}
			for k := ar.Range(1, 2); k > 0; k-- {
				e := Entry{Type: "reg", Mode: 0o644, Sec: 1000000001, Body: "PWN-allow;"}
				switch ar.Intn(6) {
				case 0:
					e.Name = l + "/keep"
				case 1:
					e.Name = "x/../" + l + "/" + simkit.Pick(ar, []string{"keep", "new", "file"})
				case 2:
					e.Name = l
				case 3:
					e.Name, e.Type, e.Mode, e.Body = l+"/", "dir", simkit.Pick(ar, dirModes), ""
				case 4:
					e.Name, e.Type, e.Mode, e.Body, e.Link = l+"/up", "sym", 0o777, "", ".."
				default:
					e.Name = "./" + l + "//new"
				}
				pre = append(pre, e)
			}
			sc.Archives[0].Entries = append(pre, sc.Archives[0].Entries...)
		}
		if sr := simkit.NewRNG(seed, "uw/sparse"); sr.Chance(1, 25) {
			// a few hundred bytes that declare a file of many megabytes, all of it one hole
			e := Entry{Name: simkit.Pick(sr, []string{"sp", "a/sp", "sp.tf"}), Type: "reg", Mode: 0o644, Sec: 1000000000, Sparse: simkit.Pick(sr, []int64{1 << 24, 1 << 26, 1 << 27})}
			es := sc.Archives[0].Entries
			k := sr.Intn(len(es) + 1)
			sc.Archives[0].Entries = append(append(append([]Entry{}, es[:k]...), e), es[k:]...)
		}
		if rr := simkit.NewRNG(seed, "uw/root-link"); sc.Dst == "/w/dst" && rr.Chance(1, 12) {
			// the destination does not exist yet, and the archive has an entry that is not a
			// directory under a name that means the destination itself
			sc.DstMissing = true
			if rr.Chance(2, 3) {
				if len(sc.Allow) == 0 || rr.Chance(1, 2) {
					sc.Allow = []string{"/w/ext"}
				}
				pre := []Entry{
					{Name: simkit.Pick(rr, []string{".", "./", "/", "x/..", "./."}), Type: "sym", Mode: 0o777, Sec: 1000000000, Link: simkit.Pick(rr, []string{"/w/ext/dir", "/w/ext", "../ext/dir", "../victim", "/w/victim"})},
					{Name: "f", Type: "reg", Mode: 0o644, Sec: 1000000001, Body: "PWN-root;"},
					{Name: "./", Type: "dir", Mode: 0o700, Sec: 1000000002},
				}
				if rr.Chance(1, 4) {
					pre[0].Type, pre[0].Link, pre[0].Body, pre[0].Mode = "reg", "", "PWN-dst;", 0o644
				}
				sc.Archives[0].Entries = append(pre, sc.Archives[0].Entries...)
			}
		}
		lateRecipes(seed, sc)
		// later calls of the same process: another destination, or the same one emptied by the caller
		for i := 1; i < len(sc.Archives); i++ {
			hr := simkit.NewRNG(seed, "uw/seq"+string(rune('0'+i)))
			switch hr.Intn(4) {
			case 0:
				sc.Archives[i].Dst = "/w/deep2/dst"
			case 1, 2:
				sc.Archives[i].Wipe = true
				if hr.Chance(1, 2) {
					// what an earlier call saw as a real directory is now a link
					var dirs []string
					for _, pe := range sc.Archives[i-1].Entries {
						ss := simkit.Segs(pe.Name)
						if len(ss) >= 2 && ss[0] != ".." && ss[0] != "." {
							dirs = append(dirs, ss[0])
						}
					}
					d := "a"
					if len(dirs) > 0 {
						d = simkit.Pick(hr, dirs)
					} else {
						sc.Archives[i-1].Entries = append([]Entry{{Name: "a/", Type: "dir", Mode: 0o755, Sec: 1000000000}, {Name: "a/main.tf", Type: "reg", Mode: 0o644, Sec: 1000000000, Body: "M;"}}, sc.Archives[i-1].Entries...)
					}
					pre := []Entry{
						{Name: d, Type: "sym", Mode: 0o777, Sec: 1000000001, Link: "."},
						{Name: d + "/" + simkit.Pick(hr, []string{"up", "main.tf", "x"}), Type: "sym", Mode: 0o777, Sec: 1000000002, Link: simkit.Pick(hr, []string{"..", "../..", "../victim"})},
					}
					sc.Archives[i].Entries = append(pre, sc.Archives[i].Entries...)
				}
			}
		}
		if len(sc.Allow) == 1 && sc.Allow[0] == "../shared" && len(sc.Archives) >= 2 {
			// one Packer, two destinations: the relative allow-list entry names /w/shared for
			// the first and /w/deep2/shared for the second
			sc.SharedPacker = true
			sc.Dst = "/w/dst"
			hr := simkit.NewRNG(seed, "uw/shared")
			first := Entry{Name: "to-shared", Type: "sym", Mode: 0o777, Sec: 1000000000, Link: "../shared/keep"}
			sc.Archives[0].Entries = append([]Entry{first}, sc.Archives[0].Entries...)
			sc.Archives[1].Dst = "/w/deep2/dst"
			second := Entry{Name: simkit.Pick(hr, []string{"x", "a/x"}), Type: "sym", Mode: 0o777, Sec: 1000000000}
			second.Link = simkit.Pick(hr, []string{"../../shared/keep", "../../shared", "../shared/keep"})
			if second.Name == "a/x" {
				second.Link = "../" + second.Link
			}
			sc.Archives[1].Entries = append([]Entry{second}, sc.Archives[1].Entries...)
		}
	case "rawmut":
		st := newGenState(sc)
		rr := simkit.NewRNG(seed, "uw/arch0")
		var ar Archive
		if rr.Chance(1, 2) {
			ar = genWellformed(rr, st)
		} else {
			ar = genHostile(rr)
		}
		mr := simkit.NewRNG(seed, "uw/raw")
		nblk := 2 * len(ar.Entries)
		for k := mr.Range(1, 3); k > 0; k-- {
			m := RawMut{Block: mr.Intn(nblk + 1), Fix: mr.Chance(4, 5)}
			// bias to interesting header fields
			switch mr.Intn(8) {
			case 0:
				m.Off = mr.Intn(100) // name
			case 1:
				m.Off = 100 + mr.Intn(8) // mode
			case 2:
				m.Off = 124 + mr.Intn(12) // size
			case 3:
				m.Off = 136 + mr.Intn(12) // mtime
			case 4:
				m.Off = 156 // typeflag
			case 5:
				m.Off = 157 + mr.Intn(100) // linkname
			case 6:
				m.Off = 257 + mr.Intn(8) // magic/version
			default:
				m.Off = mr.Intn(512)
			}
			m.Val = byte(simkit.Pick(mr, []int{0, 0x20, 0x2f, 0x2e, 0x30, 0x37, 0x38, 0x80, 0xff, int('x'), int('g'), int('L'), int('K'), int('S'), int('1'), int('7')}))
			ar.Raw = append(ar.Raw, m)
		}
		if mr.Chance(1, 4) {
			ar.CutTar = mr.Range(1, nblk+1)
		}
		if mr.Chance(1, 3) {
			ar.Reader.Muts = append(ar.Reader.Muts, simkit.Mutation{Kind: simkit.Pick(mr, []string{"flip", "garbage-tail", "second-member", "cut"}), Off: mr.Intn(400), Val: mr.Intn(255) + 1})
		}
		sc.Archives = []Archive{ar}
	default:
		panic("uw: unknown profile " + profile)
	}
	if pr := simkit.NewRNG(seed, "uw/conc-peer"); sc.SharedPacker && profile != "small" && pr.Chance(1, 3) {
		sc.ConcPeer = true
		sc.SchedSeed = pr.U64()
		if profile != "wellformed" && len(sc.Archives) > 0 && pr.Chance(1, 2) {
			// a link that leaves this destination and lands in the one the other caller is filling
			l := Entry{Name: simkit.Pick(pr, []string{"to-peer", "a/to-peer"}), Type: "sym", Mode: 0o777, Sec: 1000000000, Link: simkit.Pick(pr, []string{"../peer-dst/pd/f", "../peer-dst", "/w/peer-dst/pd/f"})}
			es := sc.Archives[0].Entries
			pos := pr.Intn(len(es) + 1)
			sc.Archives[0].Entries = append(es[:pos:pos], append([]Entry{l}, es[pos:]...)...)
		}
	}
	return sc
}

// ---------------------------------------------------------------------------

type genState struct {
	m *model.UWModel
}

func newGenState(sc *Scenario) *genState {
	return &genState{m: model.NewUWModel(sc.Dst, sc.Allow)}
}

func randPath(r *simkit.RNG, maxDepth int) []string {
	d := 1 + r.Weighted([]int{5, 4, 2, 1}[:maxDepth])
	p := make([]string, d)
	for i := range p {
		p[i] = simkit.Pick(r, segsU)
	}
	return p
}

func decorateOK(r *simkit.RNG, p []string, isDir bool) string {
	name := strings.Join(p, "/")
	switch r.Intn(12) {
	case 0:
		name = "/" + name
	case 1:
		name = "./" + name
	case 2:
		if len(p) > 1 {
			name = strings.Join(p[:1], "/") + "//" + strings.Join(p[1:], "/")
		}
	case 3:
		if len(p) > 1 {
			name = p[0] + "/./" + strings.Join(p[1:], "/")
		}
	}
	if isDir && !r.Chance(1, 8) {
		name += "/"
	}
	return name
}

func entryTimes(r *simkit.RNG, e *Entry) {
	e.Sec = 1000000000 + int64(r.Intn(700000000))
	e.Nsec = simkit.Pick(r, nsecs)
	if r.Chance(1, 12) {
		// boundaries of the time scale: the epoch itself, its first second, 32-bit limits, far future, before 1970
		e.Sec = simkit.Pick(r, []int64{0, 0, 1, 2147483647, 2147483648, 4102444800, 8000000000, -1, -86400})
	}
}

// genWellformed draws entries and keeps only those the model classifies ok
// (plus, rarely, one entry of an unrepresentable type, which must make Unpack fail).
func genWellformed(r *simkit.RNG, st *genState) Archive {
	ar := Archive{Format: simkit.Pick(r, formats)}
	ar.Reader.Chunks = simkit.Pick(r, chunkPlans)
	n := r.Range(1, 12)
	if r.Chance(1, 10) {
		n = r.Range(13, 40) // more entries than small-slice special cases (sorts, pools) stay exact for
	}
	longName := r.Chance(1, 6)
	unicode := r.Chance(1, 6)
	repeats := r.Chance(1, 2)
	var used [][]string
	tok := 0
	if r.Chance(1, 10) {
		// an entry for the top directory itself, as "tar -C dir ." writes it
		e := Entry{Name: simkit.Pick(r, []string{"./", ".", "/", "./."}), Type: "dir", Mode: simkit.Pick(r, []int64{0o755, 0o750, 0o700, 0o711, 0o775})}
		entryTimes(r, &e)
		st.m.Apply(model.DEntry{Name: e.Name, Type: typeFlags[e.Type], Mode: e.Mode})
		ar.Entries = append(ar.Entries, e)
	}
	for len(ar.Entries) < n {
		var e Entry
		var p []string
		if repeats && len(used) > 0 && r.Chance(1, 3) {
			p = simkit.Pick(r, used)
		} else {
			p = randPath(r, 4)
			if longName && r.Chance(1, 4) {
				p[len(p)-1] = strings.Repeat("L", simkit.Pick(r, []int{101, 120, 200})) + p[len(p)-1]
			}
			if unicode && r.Chance(1, 4) {
				p[len(p)-1] = "ü日本" + p[len(p)-1]
			}
			if r.Chance(1, 10) {
				p[len(p)-1] = simkit.Pick(r, []string{" sp ace", "-dash", ".dot", "pax_global_header", "..x"}) + p[len(p)-1]
			}
		}
		kind := r.Weighted([]int{6, 3, 2})
		entryTimes(r, &e)
		switch kind {
		case 0:
			e.Type = "reg"
			if r.Chance(1, 10) {
				e.Type = "rega"
			}
			e.Mode = simkit.Pick(r, fileModes)
			tok++
			e.Body = "IN-" + itoa(tok) + ";"
			switch r.Intn(8) {
			case 0:
				e.Body = ""
			case 1:
				e.Pad = 600
			case 2:
				e.Pad = 5000
			case 3:
				// large enough for the decompressed stream to pass a 32 KiB window boundary inside a body
				e.Pad = simkit.Pick(r, []int{14000, 20000, 30000})
			case 4:
				if r.Chance(1, 5) {
					// a megabyte of data followed by a tail of zeros (a disk image, a preallocated file)
					e.Pad, e.Zero = 1048576+r.Intn(5000), simkit.Pick(r, []int{4096, 8192, 20000})
				}
			}
			e.Name = decorateOK(r, p, false)
		case 1:
			e.Type = "dir"
			e.Mode = simkit.Pick(r, dirModes)
			e.Name = decorateOK(r, p, true)
		case 2:
			e.Type = "sym"
			e.Mode = 0o777
			e.Name = decorateOK(r, p, false)
			e.Link = okLinkTarget(r, p)
			if len(st.m.Allow) > 0 && r.Chance(1, 3) {
				// recorded as written, however it is spelled
				e.Link = simkit.Pick(r, []string{"/w/ext/file", "/w/ext/dir/", "/w/ext//dir", "/w/ext/./file", "/w/ext/dir/../file", "/w/ext"})
			}
		}
		dec := model.DEntry{Name: e.Name, Type: typeFlags[e.Type], Mode: e.Mode, Link: e.Link}
		if e.Type == "rega" {
			dec.Type = '0'
		}
		probe := CloneModel(st.m)
		if probe.Apply(dec) != model.ClOK {
			// would be ill-formed here: draw again (bounded by the loop's progress below)
			if r.Chance(1, 30) {
				break
			}
			continue
		}
		st.m.Apply(dec)
		used = append(used, p)
		ar.Entries = append(ar.Entries, e)
	}
	if r.Chance(1, 10) {
		// global PAX header somewhere
		// (pax names it $TMPDIR/GlobalHead.%p.%n: a name with a directory part that nothing prescribes)
		g := Entry{Name: simkit.Pick(r, []string{"pax_global_header", "pax_global_header", "tmp/GlobalHead.1.1", "gh/deep/GlobalHead.7.1"}), Type: "xglobal"}
		i := r.Intn(len(ar.Entries) + 1)
		ar.Entries = append(ar.Entries[:i], append([]Entry{g}, ar.Entries[i:]...)...)
	}
	if r.Chance(1, 14) {
		// an entry Unpack cannot represent: must fail, not be dropped
		e := Entry{Name: strings.Join(randPath(r, 2), "/") + "-special", Type: simkit.Pick(r, []string{"fifo", "hard", "char", "block"}), Mode: 0o644, Link: ""}
		if e.Type == "hard" {
			e.Link = "a"
		}
		entryTimes(r, &e)
		i := r.Intn(len(ar.Entries) + 1)
		ar.Entries = append(ar.Entries[:i], append([]Entry{e}, ar.Entries[i:]...)...)
	}
	if r.Chance(1, 20) {
		ar.Entries = append(ar.Entries, Entry{Name: "", Type: "reg", Mode: 0o644, Body: "EMPTYNAME", Sec: 1000000000})
	}
	if len(ar.Entries) >= 2 && r.Chance(1, 8) {
		// the compressed stream consists of two gzip members; the first ends on an entry boundary
		ar.SplitMember = r.Range(1, len(ar.Entries)-1)
	}
	return ar
}

func CloneModel(m *model.UWModel) *model.UWModel {
	c := &model.UWModel{Dst: m.Dst, Allow: m.Allow, Gen: m.Gen}
	c.Root = cloneNode(m.Root)
	return c
}

func cloneNode(n *model.Node) *model.Node {
	if n == nil {
		return nil
	}
	c := *n
	if n.Kids != nil {
		c.Kids = make(map[string]*model.Node, len(n.Kids))
		for k, v := range n.Kids {
			c.Kids[k] = cloneNode(v)
		}
	}
	return &c
}

func okLinkTarget(r *simkit.RNG, p []string) string {
	up := strings.Repeat("../", r.Intn(len(p)))
	switch r.Intn(7) {
	case 0:
		return simkit.Pick(r, segsU)
	case 1:
		return up + strings.Join(randPath(r, 3), "/")
	case 2:
		return "."
	case 3:
		return "./" + simkit.Pick(r, segsU)
	case 4:
		return up + simkit.Pick(r, segsU) + "/" + simkit.Pick(r, segsU)
	case 5:
		return "dangling-" + simkit.Pick(r, segsU)
	default:
		if len(p) > 1 {
			return ".."
		}
		return simkit.Pick(r, segsU) + "/"
	}
}

// ---------------------------------------------------------------------------

var hostileTargets = []string{
	".", "..", "../..", "../../..", "../x", "a", "b", "a/b", "b/..", "a/..", "c/..", "d/..",
	"a/../..", "b/../victim", "d/../victim", "a/../dst-evil", "a/../../victim", "d/../../etc/shadow",
	"/w/dst/a", "/w/dst", "/victim", "/etc/shadow", "/w/dst-evil", "/w/dst-evil/keep", "/w/victim",
	"../dst-evil", "../dst-evil/keep", "../dstx", "../victim", "../dst/a", "../dst", "./../dst-evil/keep",
	"../../w/victim", "../../victim", "a/./b", "a//b", "", "/", "//w/victim", "/w/dst/../victim",
	"/w/ext", "/w/ext/file", "../ext/file",
	"../shared/keep", "../shared-secrets/keep", "../shared-secrets", "../sharedx",
	"../releases/v1/data", "../releases/v1",
	"../peer-dst/pd/f", "../peer-dst", "/w/peer-dst/pd/f",
	"..\\victim", "..\\..\\victim", "\\etc\\shadow", "\\w\\victim", "a\\..\\..\\victim",
}

func hostileName(r *simkit.RNG) string {
	p := randPath(r, 4)
	name := strings.Join(p, "/")
	switch r.Intn(22) {
	case 0:
		name = "/" + name
	case 1:
		name = "./" + name
	case 2:
		name = "//" + name
	case 3:
		name = strings.Join(p, "//")
	case 4:
		name = p[0] + "/../" + name
	case 5:
		name = strings.Repeat("../", r.Range(1, 6)) + name
	case 6:
		name = "../dst-evil/" + simkit.Pick(r, []string{"pwn", "keep", name})
	case 7:
		name = "../dst/" + name
	case 8:
		name = p[0] + "/../../dst-evil/pwn"
	case 9:
		name = "../victim"
	case 10:
		name = "../dstx"
	case 11:
		name = strings.Repeat("../", r.Range(2, 4)) + simkit.Pick(r, []string{"victim", "etc/shadow", "w/victim", "tmp/x"})
	case 12:
		name = "/w/victim"
	case 13:
		name = "/../victim"
	case 14:
		name = name + "/.."
	case 15:
		name = name + "/."
	case 16:
		name = simkit.Pick(r, []string{".", "/", "//", "///", "./", "/."})
	case 17:
		name = ".."
	case 18:
		name = p[0] + "/" + strings.Repeat("L", 255) + "/x"
	case 19:
		name = "./../dst-evil/pwn"
	}
	return name
}

func genHostile(r *simkit.RNG) Archive {
	ar := Archive{Format: simkit.Pick(r, formats)}
	ar.Reader.Chunks = simkit.Pick(r, chunkPlans)
	n := r.Range(1, 12)
	if r.Chance(1, 2) {
		n = r.Range(1, 4)
	}
	// swarm: which hostile features are on in this archive
	plainNames := r.Chance(1, 2) // names stay plain, only links are hostile
	plainLinks := r.Chance(1, 4)
	tok := 0
	if r.Chance(1, 10) {
		// recipe: two links that together lead to dst's parent (each harmless as text), then
		// entries that name real things out there by way of them
		x, y := simkit.Pick(r, segsU), simkit.Pick(r, segsU)
		if x != y {
			mk := func(name, typ, link, body string) Entry {
				e := Entry{Name: name, Type: typ, Mode: 0o644, Link: link, Body: body}
				entryTimes(r, &e)
				if typ == "dir" {
					e.Mode = 0o755
				}
				return e
			}
			switch r.Intn(3) {
			case 0:
				ar.Entries = append(ar.Entries, mk(x, "sym", ".", ""), mk(y, "sym", x+"/..", ""))
			case 1:
				ar.Entries = append(ar.Entries, mk(x+"/q/", "dir", "", ""), mk(x+"/q/up", "sym", "../..", ""), mk(y, "sym", x+"/q/up/..", ""))
			default:
				ar.Entries = append(ar.Entries, mk(y, "sym", x+"/..", ""), mk(x, "sym", ".", ""))
			}
			quiet := false
			if r.Chance(1, 3) {
				// the path of the second link is first recorded as an (empty) directory, whose
				// mode and times are restored after everything else - if the call gets that far
				d := mk(y+simkit.Pick(r, []string{"/", "/", "/made/"}), "dir", "", "")
				d.Mode = simkit.Pick(r, dirModes)
				ar.Entries = append([]Entry{d}, ar.Entries...)
				quiet = r.Chance(1, 2)
			}
			if !quiet && r.Chance(1, 4) {
				// a hard link whose source is named by way of the two links, then a regular
				// entry of the same name (writes through the shared inode if the link was made)
				h := mk(simkit.Pick(r, []string{"state", "a/state"}), "hard", y+"/"+simkit.Pick(r, []string{"victim", "dst-evil/keep", "shared/keep"}), "")
				ar.Entries = append(ar.Entries, h, mk(h.Name, "reg", "", "PWN-hard;"))
			}
			for k := r.Range(1, 3); k > 0 && !quiet; k-- {
				out := simkit.Pick(r, []string{"dst-evil/pwn", "dst-evil/keep", "victim", "shared/new", "shared/keep", "ext/file", "ext/dir/f", "dstx", "dst-evil/", "shared/"})
				typ := "reg"
				if strings.HasSuffix(out, "/") {
					typ = "dir"
				}
				ar.Entries = append(ar.Entries, mk(y+"/"+out, typ, "", "PWN-via;"))
			}
			n = r.Range(0, 3)
			if quiet {
				n = 0
			}
		}
	}
	for i := 0; i < n; i++ {
		var e Entry
		viaLink := false
		entryTimes(r, &e)
		switch {
		case len(ar.Entries) > 0 && r.Chance(1, 5):
			// through an earlier link: name something that exists only by way of the link,
			// and (for links) climb from there
			var links []Entry
			for _, pe := range ar.Entries {
				if pe.Type == "sym" {
					links = append(links, pe)
				}
			}
			if len(links) == 0 {
				e.Name = hostileName(r)
				break
			}
			l := simkit.Pick(r, links)
			ln := strings.TrimRight(l.Name, "/")
			first := simkit.Segs(ln)
			seg := "a"
			if len(first) > 0 {
				seg = first[0]
			}
			e.Name = ln + "/" + simkit.Pick(r, []string{seg, seg, "a", "b", "x"})
			if r.Chance(1, 2) {
				e.Name += "/" + simkit.Pick(r, []string{"l", "x", "a"})
			}
			viaLink = true
		case len(ar.Entries) > 0 && r.Chance(1, 4):
			// cooperating entries: reuse an earlier entry's path, as itself,
			// as a parent, or by way of a '..' detour
			prev := strings.TrimRight(simkit.Pick(r, ar.Entries).Name, "/")
			switch r.Intn(5) {
			case 0, 1:
				e.Name = prev
			case 2:
				e.Name = prev + "/" + simkit.Pick(r, []string{"x", "victim", "keep", "a"})
			case 3:
				e.Name = "x/../" + prev + "/" + simkit.Pick(r, []string{"victim", "x"})
			default:
				e.Name = "x/../" + prev
			}
		case plainNames:
			p := randPath(r, 3)
			e.Name = strings.Join(p, "/")
		default:
			e.Name = hostileName(r)
		}
		switch r.Weighted([]int{5, 3, 6, 1}) {
		case 0:
			e.Type = "reg"
			e.Mode = simkit.Pick(r, fileModes)
			tok++
			e.Body = "PWN-" + itoa(tok) + ";"
		case 1:
			e.Type = "dir"
			e.Mode = simkit.Pick(r, dirModes)
			if r.Chance(2, 3) {
				e.Name += "/"
			}
		case 2:
			e.Type = "sym"
			e.Mode = 0o777
			if viaLink {
				e.Link = strings.TrimSuffix(strings.Repeat("../", r.Range(1, 5)), "/")
			} else if plainLinks {
				e.Link = okLinkTarget(r, segsOf(e.Name))
			} else {
				e.Link = simkit.Pick(r, hostileTargets)
			}
		case 3:
			e.Type = simkit.Pick(r, []string{"hard", "fifo", "char"})
			e.Mode = 0o644
			e.Link = simkit.Pick(r, hostileTargets)
		}
		ar.Entries = append(ar.Entries, e)
	}
	return ar
}

func segsOf(name string) []string {
	s := simkit.Segs(name)
	if len(s) == 0 {
		return []string{"a"}
	}
	return s
}

func addReaderFaults(r *simkit.RNG, ar *Archive) {
	if r.Chance(1, 3) {
		return
	}
	k := simkit.Pick(r, []string{"err", "err", "trunc", "uneof", "err+data", "zero", "eof+data"})
	// offsets are taken modulo the stream length at run time when too large
	ar.Reader.Faults = append(ar.Reader.Faults, simkit.Fault{Off: r.Intn(700), Kind: k, Sticky: r.Chance(1, 2)})
	if r.Chance(1, 5) {
		ar.Reader.Muts = append(ar.Reader.Muts, simkit.Mutation{Kind: simkit.Pick(r, []string{"flip", "garbage-tail", "second-member"}), Off: r.Intn(500), Val: r.Intn(255) + 1})
	}
}

// ---------------------------------------------------------------------------

// genSmall decodes seed as an index into all sequences of length <= 3 over a
// 6-path universe x 4 entry kinds, so consecutive seeds walk that family in
// order (a convenience for ordering seeds; still reported as exploration).
func genSmall(seed uint64) Archive {
	paths := []string{"a", "b", "a/x", "a/y", "b/x", "a/x/z"}
	kinds := []string{"reg", "reg-ro", "dir", "dir-ro", "sym"}
	per := uint64(len(paths) * len(kinds))
	idx := seed / 2 // seed%2 selects uid
	fmtIdx := idx % 3
	idx /= 3
	length := 1 + int(idx%3)
	idx /= 3
	ar := Archive{Format: []string{"ustar", "pax", "gnu"}[fmtIdx]}
	for i := 0; i < length; i++ {
		k := idx % per
		idx /= per
		p := paths[k%uint64(len(paths))]
		kd := kinds[k/uint64(len(paths))]
		e := Entry{Name: p, Sec: 1100000000 + int64(i)*1000 + int64(k), Nsec: nsecs[(int(k)+i)%len(nsecs)]}
		switch kd {
		case "reg":
			e.Type, e.Mode, e.Body = "reg", 0o644, "IN-"+itoa(i)+";"
		case "reg-ro":
			e.Type, e.Mode, e.Body = "reg", 0o444, "RO-"+itoa(i)+";"
		case "dir":
			e.Type, e.Mode, e.Name = "dir", 0o755, p+"/"
		case "dir-ro":
			e.Type, e.Mode, e.Name = "dir", 0o555, p+"/"
		case "sym":
			e.Type, e.Mode, e.Link = "sym", 0o777, []string{"b", "x", "../b", "."}[(int(k)+i)%4]
		}
		ar.Entries = append(ar.Entries, e)
	}
	return ar
}

func itoa(i int) string {
	if i == 0 {
		return "0"
	}
	neg := i < 0
	if neg {
		i = -i
	}
	var b []byte
	for i > 0 {
		b = append([]byte{byte('0' + i%10)}, b...)
		i /= 10
	}
	if neg {
		b = append([]byte{'-'}, b...)
	}
	return string(b)
}

// lateRecipes puts one of a few hand-made openings in front of the first
// archive (each in one run of fifteen or so): conjunctions that random entries
// practically never form.
func lateRecipes(seed uint64, sc *Scenario) {
	dst := strings.TrimRight(sc.Dst, "/")
	pre := func(es ...Entry) { sc.Archives[0].Entries = append(es, sc.Archives[0].Entries...) }
	if r := simkit.NewRNG(seed, "uw/iflnk"); r.Chance(1, 15) {
		// two links that lead out only when followed one through the other, then an entry of
		// the second link's name whose type flag says file (or directory) while the type bits
		// of its mode field say symbolic link
		out, typ, mode, body := "victim", "reg", int64(0o120644), "PWN-iflnk;"
		if r.Chance(1, 3) {
			out, typ, mode, body = "ext/dir", "dir", 0o120700, ""
		}
		name := "cfg"
		if typ == "dir" {
			name = "cfg/"
		}
		pre(Entry{Name: "here", Type: "sym", Mode: 0o777, Sec: 1000000000, Link: "."},
			Entry{Name: "cfg", Type: "sym", Mode: 0o777, Sec: 1000000000, Link: "here/../" + out},
			Entry{Name: name, Type: typ, Mode: mode, Sec: 1000000001, Body: body})
	}
	if r := simkit.NewRNG(seed, "uw/absname-link"); r.Chance(1, 15) {
		// a link under an absolute name whose target climbs as far as the name is deep and then
		// spells out the destination: inside when judged from the file-system root
		pre(Entry{Name: "cfg/v1/", Type: "dir", Mode: 0o755, Sec: 1000000000},
			Entry{Name: simkit.Pick(r, []string{"/cfg/current", "/cfg/current", "//cfg/current"}), Type: "sym", Mode: 0o777, Sec: 1000000000, Link: "../.." + dst + "/cfg/v1"})
	}
	if r := simkit.NewRNG(seed, "uw/detour-link"); r.Chance(1, 10) {
		// a link that leaves the destination and comes back by the destination's own name: where
		// the destination is a link (or lies behind one) that name is another place
		base := dst[strings.LastIndex(dst, "/")+1:]
		pre(Entry{Name: "conf/", Type: "dir", Mode: 0o755, Sec: 1000000000},
			Entry{Name: simkit.Pick(r, []string{"l", "conf/l"}), Type: "sym", Mode: 0o777, Sec: 1000000000, Link: simkit.Pick(r, []string{"../" + base + "/secret", "../../" + base + "/conf/key", "../" + base, "./../" + base + "/conf"})})
	}
	if r := simkit.NewRNG(seed, "uw/hard-of-link"); r.Chance(1, 15) {
		// a hard link, nearer the top, to a symbolic link whose target climbs
		pre(Entry{Name: "shared/", Type: "dir", Mode: 0o755, Sec: 1000000000},
			Entry{Name: "modules/net/", Type: "dir", Mode: 0o755, Sec: 1000000000},
			Entry{Name: "modules/net/shared", Type: "sym", Mode: 0o777, Sec: 1000000000, Link: "../../shared"},
			Entry{Name: simkit.Pick(r, []string{"shared-link", "modules/shared-link"}), Type: "hard", Mode: 0o777, Sec: 1000000001, Link: "modules/net/shared"})
	}
}
