// Package uw is the Unpack world: real slug.Unpack writing into the chroot
// arena, fed by a SimReader; oracles for C01, C04, C15 and the Unpack parts of
// C12 and C19.
package uw

import (
	"archive/tar"
	"bytes"
	"compress/gzip"
	"fmt"
	"io"
	"strings"
	"time"

	"verif/sim/model"
	"verif/sim/simkit"
)

// Entry is one archive entry of a scenario (an operation of the workload).
type Entry struct {
	Name string `json:"name"`
	Type string `json:"type"` // reg rega dir sym hard fifo char block xglobal
	Mode int64  `json:"mode"`
	Sec  int64  `json:"sec"`
	Nsec int64  `json:"nsec,omitempty"`
	Link string `json:"link,omitempty"`
	Body string `json:"body,omitempty"`
	Pad  int    `json:"pad,omitempty"`  // extra body bytes (deterministic filler)
	Zero int    `json:"zero,omitempty"` // zero bytes after that (a preallocated tail)
	// Sparse > 0: a regular entry with no stored data, preceded by a pax header that declares it
	// a sparse file (format 0.1) of this logical size, all of it one hole
	Sparse int64 `json:"sparse,omitempty"`
}

// RawMut mutates the uncompressed tar stream (C19 workload): byte Off of
// 512-byte header block Block is set to Val and the checksum is repaired.
type RawMut struct {
	Block int  `json:"block"`
	Off   int  `json:"off"`
	Val   byte `json:"val"`
	Fix   bool `json:"fix"` // repair header checksum
}

type Archive struct {
	Format      string            `json:"format"` // ustar pax gnu auto
	Entries     []Entry           `json:"entries"`
	Raw         []RawMut          `json:"raw,omitempty"`
	CutTar      int               `json:"cut_tar,omitempty"` // truncate the tar stream at this many 512-blocks before compressing (0 = no)
	Reader      simkit.ReaderPlan `json:"reader"`
	Dst         string            `json:"dst,omitempty"`          // unpack this archive into another destination (default: the scenario's)
	SplitMember int               `json:"split_member,omitempty"` // >0: the gzip stream has two members, the first holding exactly this many entries
	Wipe        bool              `json:"wipe,omitempty"`         // the caller empties and re-creates the destination before this Unpack
}

type Scenario struct {
	World        string    `json:"world"`
	Profile      string    `json:"profile"`
	Seed         uint64    `json:"seed"`
	UID          int       `json:"uid"`
	Umask        int       `json:"umask"`
	Dst          string    `json:"dst"`
	Allow        []string  `json:"allow,omitempty"`
	DstMissing   bool      `json:"dst_missing,omitempty"` // the destination directory does not exist yet when the first call is made (its parent does)
	FailFirst    bool      `json:"fail_first,omitempty"`  // archive 0 is an earlier call that is refused half-way; the destination is emptied afterwards
	ConcPeer     bool      `json:"conc_peer,omitempty"`   // while each observed Unpack runs, another caller unpacks a small fixed archive into /w/peer-dst with the same Packer (interleaved at Read calls by the schedule tape)
	SchedSeed    uint64    `json:"sched_seed,omitempty"`
	Tapes        [][]int   `json:"tapes,omitempty"`
	HaveTape     bool      `json:"have_tape,omitempty"`
	SharedPacker bool      `json:"shared_packer,omitempty"` // one *Packer serves all Unpack calls of the scenario
	Archives     []Archive `json:"archives"`
}

var typeFlags = map[string]byte{
	"reg": tar.TypeReg, "rega": tar.TypeRegA, "dir": tar.TypeDir, "sym": tar.TypeSymlink,
	"hard": tar.TypeLink, "fifo": tar.TypeFifo, "char": tar.TypeChar, "block": tar.TypeBlock,
	"xglobal": tar.TypeXGlobalHeader,
}

func (e Entry) body() []byte {
	if e.Pad == 0 && e.Zero == 0 {
		return []byte(e.Body)
	}
	b := make([]byte, 0, len(e.Body)+e.Pad+e.Zero)
	b = append(b, e.Body...)
	for i := 0; i < e.Pad; i++ {
		b = append(b, byte('a'+(i*7+len(e.Body))%23))
	}
	return append(b, make([]byte, e.Zero)...)
}

// BuildTar encodes the entries with Go's tar writer. It returns the
// uncompressed tar stream.
func (a *Archive) BuildTar() ([]byte, error) {
	var buf bytes.Buffer
	tw := tar.NewWriter(&buf)
	for i, e := range a.Entries {
		tf, ok := typeFlags[e.Type]
		if !ok {
			return nil, fmt.Errorf("entry %d: unknown type %q", i, e.Type)
		}
		h := &tar.Header{Name: e.Name, Typeflag: tf, Mode: e.Mode, ModTime: time.Unix(e.Sec, e.Nsec), Linkname: e.Link}
		switch a.Format {
		case "ustar":
			h.Format = tar.FormatUSTAR
		case "pax":
			h.Format = tar.FormatPAX
		case "gnu":
			h.Format = tar.FormatGNU
		}
		var body []byte
		if tf == tar.TypeReg || tf == tar.TypeRegA {
			body = e.body()
			h.Size = int64(len(body))
		}
		if tf == tar.TypeXGlobalHeader {
			h = &tar.Header{Typeflag: tf, Name: e.Name, PAXRecords: map[string]string{"comment": "verif"}}
		}
		if e.Sparse > 0 && (tf == tar.TypeReg || tf == tar.TypeRegA) {
			if err := tw.Flush(); err != nil {
				return nil, err
			}
			buf.Write(paxSparseHeader(e.Name, e.Sparse))
			h.Format, h.Size, body = tar.FormatUSTAR, 0, nil
			h.ModTime = time.Unix(e.Sec, 0)
		}
		if err := tw.WriteHeader(h); err != nil {
			if a.Format != "auto" {
				// the chosen format cannot express this entry: let the writer choose
				h.Format = tar.FormatUnknown
				if err2 := tw.WriteHeader(h); err2 != nil {
					return nil, fmt.Errorf("entry %d: %v", i, err2)
				}
			} else {
				return nil, fmt.Errorf("entry %d: %v", i, err)
			}
		}
		if len(body) > 0 {
			if _, err := tw.Write(body); err != nil {
				return nil, err
			}
		}
	}
	if err := tw.Close(); err != nil {
		return nil, err
	}
	raw := buf.Bytes()
	for _, m := range a.Raw {
		off := m.Block * 512
		if off+512 > len(raw) || m.Off < 0 || m.Off >= 512 {
			continue
		}
		blk := raw[off : off+512]
		blk[m.Off] = m.Val
		if m.Fix {
			fixChecksum(blk)
		}
	}
	if a.CutTar > 0 && a.CutTar*512 < len(raw) {
		raw = raw[:a.CutTar*512]
	}
	return raw, nil
}

// paxSparseHeader is a pax extended header ('x') for the entry that follows
// it, carrying the records of the GNU sparse format 0.1: logical size n, one
// data fragment of length 0.
func paxSparseHeader(name string, n int64) []byte {
	var recs []byte
	for _, kv := range [][2]string{{"GNU.sparse.size", fmt.Sprint(n)}, {"GNU.sparse.numblocks", "1"}, {"GNU.sparse.map", "0,0"}} {
		size := len(kv[0]) + len(kv[1]) + 3
		size += len(fmt.Sprint(size))
		rec := fmt.Sprintf("%d %s=%s\n", size, kv[0], kv[1])
		if len(rec) != size {
			rec = fmt.Sprintf("%d %s=%s\n", len(rec), kv[0], kv[1])
		}
		recs = append(recs, rec...)
	}
	blk := make([]byte, 512)
	copy(blk[0:100], "PaxHeaders.0/"+name)
	copy(blk[100:108], "0000644\x00")
	copy(blk[108:116], "0000000\x00")
	copy(blk[116:124], "0000000\x00")
	copy(blk[124:136], fmt.Sprintf("%011o\x00", len(recs)))
	copy(blk[136:148], "00000000000\x00")
	blk[156] = 'x'
	copy(blk[257:265], "ustar\x0000")
	fixChecksum(blk)
	pad := (512 - len(recs)%512) % 512
	return append(append(blk, recs...), make([]byte, pad)...)
}

func fixChecksum(blk []byte) {
	for i := 148; i < 156; i++ {
		blk[i] = ' '
	}
	sum := 0
	for _, c := range blk {
		sum += int(c)
	}
	copy(blk[148:156], []byte(fmt.Sprintf("%06o\x00 ", sum)))
}

// GzipSplit compresses a tar stream as two gzip members, the first holding the
// first k entries exactly (it ends on a tar record boundary).
func (a *Archive) GzipSplit(raw []byte) []byte {
	if a.SplitMember <= 0 {
		return Gzip(raw)
	}
	off := entryBoundary(raw, a.SplitMember)
	if off <= 0 || off >= len(raw) {
		return Gzip(raw)
	}
	return append(Gzip(raw[:off]), Gzip(raw[off:])...)
}

// entryBoundary returns the byte offset in a tar stream written by BuildTar at
// which logical entry number k (0-based count of tar.Reader entries) ends: it
// walks 512-byte blocks, following header sizes, and counts only entries the
// reader reports (PAX 'x' and GNU 'L'/'K' headers belong to the entry they precede).
func entryBoundary(raw []byte, k int) int {
	off := 0
	seen := 0
	for off+512 <= len(raw) {
		blk := raw[off : off+512]
		allZero := true
		for _, c := range blk {
			if c != 0 {
				allZero = false
				break
			}
		}
		if allZero {
			return -1
		}
		size := parseOctal(blk[124:136])
		tf := blk[156]
		next := off + 512 + int((size+511)/512*512)
		if tf != 'x' && tf != 'L' && tf != 'K' {
			seen++
			if seen == k {
				return next
			}
		}
		off = next
	}
	return -1
}

func parseOctal(b []byte) int64 {
	var v int64
	for _, c := range b {
		if c >= '0' && c <= '7' {
			v = v*8 + int64(c-'0')
		}
	}
	return v
}

// Gzip compresses a tar stream deterministically.
func Gzip(raw []byte) []byte {
	var buf bytes.Buffer
	zw, _ := gzip.NewWriterLevel(&buf, gzip.BestSpeed)
	zw.Write(raw)
	zw.Close()
	return buf.Bytes()
}

// Decode reads a tar stream with Go's tar reader: the entry list "as the
// archive says". complete is false when the reader stopped on an error.
func Decode(raw []byte) (ents []model.DEntry, complete bool) {
	tr := tar.NewReader(bytes.NewReader(raw))
	for {
		h, err := tr.Next()
		if err == io.EOF {
			return ents, true
		}
		if err != nil {
			return ents, false
		}
		var body []byte
		sparse := false
		for k := range h.PAXRecords {
			if strings.HasPrefix(k, "GNU.sparse.") {
				sparse = true
			}
		}
		if !sparse && (h.Typeflag == tar.TypeReg || h.Typeflag == tar.TypeRegA) {
			body, err = io.ReadAll(tr)
			if err != nil {
				return ents, false
			}
		}
		ents = append(ents, model.DEntry{Name: h.Name, Type: h.Typeflag, Mode: int64(h.FileInfo().Mode().Perm()),
			MtimeNs: h.ModTime.UnixNano(), Link: h.Linkname, Body: body, Sparse: sparse})
	}
}
