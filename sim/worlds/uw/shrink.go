package uw

import "encoding/json"

// Shrink proposes structurally simpler variants of a scenario, most
// aggressive first. The orchestrator keeps a variant when the same violation
// (property, oracle, class) still occurs.
func Shrink(raw json.RawMessage) []json.RawMessage {
	var sc Scenario
	if json.Unmarshal(raw, &sc) != nil {
		return nil
	}
	var out []json.RawMessage
	emit := func(f func(c *Scenario) bool) {
		var c Scenario
		b, _ := json.Marshal(&sc)
		json.Unmarshal(b, &c)
		if f(&c) {
			nb, _ := json.Marshal(&c)
			if string(nb) != string(b) {
				out = append(out, nb)
			}
		}
	}
	// drop whole archives
	if len(sc.Archives) > 1 {
		for i := range sc.Archives {
			i := i
			emit(func(c *Scenario) bool {
				c.Archives = append(c.Archives[:i], c.Archives[i+1:]...)
				if c.FailFirst && i <= 1 {
					c.FailFirst = false
				}
				return true
			})
		}
	}
	// drop halves, then single entries
	for ai := range sc.Archives {
		ai := ai
		n := len(sc.Archives[ai].Entries)
		if n > 3 {
			emit(func(c *Scenario) bool { c.Archives[ai].Entries = c.Archives[ai].Entries[:n/2]; return true })
			emit(func(c *Scenario) bool { c.Archives[ai].Entries = c.Archives[ai].Entries[n/2:]; return true })
		}
		for ei := 0; ei < n; ei++ {
			ei := ei
			emit(func(c *Scenario) bool {
				es := c.Archives[ai].Entries
				if len(es) <= 1 && len(c.Archives) == 1 {
					return false
				}
				c.Archives[ai].Entries = append(es[:ei], es[ei+1:]...)
				return true
			})
		}
	}
	// drop faults, mutations
	for ai := range sc.Archives {
		ai := ai
		a := sc.Archives[ai]
		if len(a.Reader.Faults) > 0 {
			emit(func(c *Scenario) bool { c.Archives[ai].Reader.Faults = nil; return true })
		}
		if len(a.Reader.Muts) > 0 {
			emit(func(c *Scenario) bool { c.Archives[ai].Reader.Muts = nil; return true })
		}
		if len(a.Raw) > 0 {
			emit(func(c *Scenario) bool { c.Archives[ai].Raw = nil; return true })
			for ri := range a.Raw {
				ri := ri
				emit(func(c *Scenario) bool {
					c.Archives[ai].Raw = append(c.Archives[ai].Raw[:ri], c.Archives[ai].Raw[ri+1:]...)
					return true
				})
			}
		}
		if a.CutTar > 0 {
			emit(func(c *Scenario) bool { c.Archives[ai].CutTar = 0; return true })
		}
		if len(a.Reader.Chunks) > 0 {
			emit(func(c *Scenario) bool { c.Archives[ai].Reader.Chunks = nil; return true })
		}
		if a.Format != "auto" {
			emit(func(c *Scenario) bool { c.Archives[ai].Format = "auto"; return true })
		}
	}
	// simplify configuration
	if sc.UID != 0 {
		emit(func(c *Scenario) bool { c.UID = 0; return true })
	}
	if sc.Umask != 0o022 {
		emit(func(c *Scenario) bool { c.Umask = 0o022; return true })
	}
	if sc.Dst != "/w/dst" {
		emit(func(c *Scenario) bool { c.Dst = "/w/dst"; return true })
	}
	if sc.ConcPeer {
		emit(func(c *Scenario) bool { c.ConcPeer = false; c.Tapes, c.HaveTape = nil, false; return true })
	}
	if sc.SharedPacker {
		emit(func(c *Scenario) bool {
			c.SharedPacker = false
			c.ConcPeer = false
			c.Tapes, c.HaveTape = nil, false
			return true
		})
	}
	for ai := range sc.Archives {
		ai := ai
		if sc.Archives[ai].Dst != "" {
			emit(func(c *Scenario) bool { c.Archives[ai].Dst = ""; return true })
		}
		if sc.Archives[ai].Wipe && !(sc.FailFirst && ai == 1) {
			emit(func(c *Scenario) bool { c.Archives[ai].Wipe = false; return true })
		}
	}
	if len(sc.Allow) > 0 {
		emit(func(c *Scenario) bool { c.Allow = nil; return true })
	}
	// simplify entries
	for ai := range sc.Archives {
		for ei := range sc.Archives[ai].Entries {
			ai, ei := ai, ei
			e := sc.Archives[ai].Entries[ei]
			if e.Pad != 0 {
				emit(func(c *Scenario) bool { c.Archives[ai].Entries[ei].Pad = 0; return true })
			}
			if e.Zero != 0 {
				emit(func(c *Scenario) bool { c.Archives[ai].Entries[ei].Zero = 0; return true })
			}
			if e.Nsec != 0 {
				emit(func(c *Scenario) bool { c.Archives[ai].Entries[ei].Nsec = 0; return true })
			}
			if (e.Type == "reg" && e.Mode != 0o644) || (e.Type == "dir" && e.Mode != 0o755) {
				emit(func(c *Scenario) bool {
					if e.Type == "reg" {
						c.Archives[ai].Entries[ei].Mode = 0o644
					} else {
						c.Archives[ai].Entries[ei].Mode = 0o755
					}
					return true
				})
			}
			if e.Sec != 1000000000 {
				emit(func(c *Scenario) bool { c.Archives[ai].Entries[ei].Sec = 1000000000; return true })
			}
		}
	}
	return out
}
