package uwrun

import (
	"bytes"
	"encoding/json"
	"errors"
	"fmt"
	"os"
	"path/filepath"
	"regexp"
	"sort"
	"strings"
	"syscall"

	slug "github.com/hashicorp/go-slug"

	"verif/sim/model"
	"verif/sim/simkit"
	"verif/sim/worlds/uw"
)

// PNode is a node of the physical tree under dst.
type PNode struct {
	Kind    byte
	Mode    int64
	MtimeNs int64
	Body    []byte
	Target  string
}

// ListTree lists everything below root (relative slash paths), temporarily
// opening directories the current uid cannot read and restoring their mode
// and times afterwards.
func ListTree(root string) map[string]PNode {
	out := map[string]PNode{}
	var walk func(abs, rel string)
	walk = func(abs, rel string) {
		fi, err := os.Lstat(abs)
		if err != nil {
			return
		}
		n := PNode{Mode: int64(fi.Mode().Perm()), MtimeNs: fi.ModTime().UnixNano()}
		switch {
		case fi.Mode()&os.ModeSymlink != 0:
			n.Kind = 'l'
			n.Target, _ = os.Readlink(abs)
		case fi.IsDir():
			n.Kind = 'd'
		case fi.Mode().IsRegular():
			n.Kind = 'f'
			b, err := os.ReadFile(abs)
			if err != nil && os.Getuid() != 0 {
				os.Chmod(abs, 0o600)
				b, _ = os.ReadFile(abs)
				os.Chmod(abs, fi.Mode().Perm())
				os.Chtimes(abs, fi.ModTime(), fi.ModTime())
			}
			n.Body = b
		default:
			n.Kind = 'o'
		}
		if rel != "" {
			out[rel] = n
		}
		if n.Kind == 'd' {
			ents, err := os.ReadDir(abs)
			restored := false
			if err != nil && os.Getuid() != 0 {
				os.Chmod(abs, 0o700)
				ents, _ = os.ReadDir(abs)
				restored = true
			} else if os.Getuid() != 0 && fi.Mode().Perm()&0o100 == 0 {
				os.Chmod(abs, 0o700)
				restored = true
			}
			for _, c := range ents {
				r := c.Name()
				if rel != "" {
					r = rel + "/" + c.Name()
				}
				walk(abs+"/"+c.Name(), r)
			}
			if restored {
				os.Chmod(abs, fi.Mode().Perm())
				os.Chtimes(abs, fi.ModTime(), fi.ModTime())
			}
		}
	}
	walk(strings.TrimRight(root, "/"), "")
	return out
}

// BuildArena lays out the decoys around dst. Everything is created by the
// running uid so that an escaping write would actually succeed.
func BuildArena(dst string) error {
	d := strings.TrimRight(dst, "/")
	parent := filepath.Dir(d)
	mk := func(p string) error { return os.MkdirAll(p, 0o755) }
	wr := func(p, s string) error {
		if err := mk(filepath.Dir(p)); err != nil {
			return err
		}
		return os.WriteFile(p, []byte(s), 0o644)
	}
	if strings.HasPrefix(d, "/w/alias/") {
		// the destination is spelled through a symlinked path component
		os.MkdirAll("/w/real", 0o755)
		if _, err := os.Lstat("/w/alias"); err != nil {
			os.Symlink("real", "/w/alias")
		}
	}
	if d == "/w/dstlink" || strings.HasPrefix(d, "/w/dstlink/") {
		// the destination itself is a symlink to a directory
		os.MkdirAll("/w/dstreal", 0o755)
		if _, err := os.Lstat("/w/dstlink"); err != nil {
			os.Symlink("dstreal", "/w/dstlink")
		}
	}
	switch d {
	case "/w/rel/current":
		// a "current release" link: the real directory lies one level deeper than its name
		os.MkdirAll("/w/rel/releases/v1", 0o755)
		if _, err := os.Lstat(d); err != nil {
			os.Symlink("releases/v1", d)
		}
	}
	near := func(p, s string) error {
		if strings.HasPrefix(d, "/w/lone/") {
			return nil // this destination is the only child of its parent, which is the only child of its own
		}
		return wr(p, s)
	}
	steps := []error{
		mk("/w"), mk("/tmp"), mk("/cwd"), mk(d), mk("/w/peer-dst"),
		near(d+"-evil/keep", "OUT-evil-keep"),
		near(d+"x", "OUT-dstx"),
		near(parent+"/victim", "OUT-victim"),
		wr("/w/victim", "OUT-w-victim"),
		wr("/victim", "OUT-root-victim"),
		wr("/etc/shadow", "OUT-shadow"),
		wr("/w/ext/file", "OUT-ext-file"),
		wr("/w/ext/dir/f", "OUT-ext-dir-f"),
		wr("/w/dst-evil/keep", "OUT-evil-keep"),
	}
	for _, e := range steps {
		if e != nil {
			return e
		}
	}
	return os.Chdir("/cwd")
}

// Run executes a scenario in the (already entered) arena and evaluates all
// Unpack-world oracles. wantScenario attaches the scenario to the outcome.
func Run(sc *uw.Scenario) *simkit.Outcome {
	out := &simkit.Outcome{World: "uw", Profile: sc.Profile, Seed: sc.Seed}
	out.ScenHash = simkit.HashJSON(sc)
	simkit.ResetCanon()
	log := simkit.NewLog()
	if os.Getuid() != sc.UID {
		out.Harness = fmt.Sprintf("scenario wants uid %d, worker runs as %d", sc.UID, os.Getuid())
		return out
	}
	if err := simkit.WipeArena(); err != nil {
		out.Harness = "wipe: " + err.Error()
		return out
	}
	syscall.Umask(0o022)
	if err := BuildArena(sc.Dst); err != nil {
		out.Harness = "arena: " + err.Error()
		return out
	}
	for ai := range sc.Archives {
		if d := sc.Archives[ai].Dst; d != "" {
			if err := BuildArena(d); err != nil {
				out.Harness = "arena: " + err.Error()
				return out
			}
		}
	}
	if sc.DstMissing {
		os.Remove(strings.TrimRight(sc.Dst, "/"))
	}
	for _, f := range []string{"/w/shared/keep", "/w/deep2/shared/keep", "/w/shared-secrets/keep", "/w/sharedx"} {
		os.MkdirAll(filepath.Dir(f), 0o755)
		os.WriteFile(f, []byte("OUT-shared"), 0o644)
	}
	syscall.Umask(sc.Umask)
	defer syscall.Umask(0o022)
	type dstState struct {
		m     *model.UWModel
		valid bool // model tree still describes this destination exactly
	}
	dsts := map[string]*dstState{}
	states := map[string]bool{}
	decorated := false
	book := &simkit.TapeBook{Tapes: sc.Tapes, Have: sc.HaveTape}
	defer func() { out.Tapes = book.Collect() }()
	var shared *slug.Packer
	if sc.SharedPacker {
		shared, _ = slug.NewPacker(allowOpts(sc.Allow)...)
	}

	for ai := range sc.Archives {
		ar := &sc.Archives[ai]
		dst := sc.Dst
		if ar.Dst != "" {
			dst = ar.Dst
		}
		if dsts[dst] == nil {
			dsts[dst] = &dstState{m: model.NewUWModel(dst, sc.Allow), valid: true}
		}
		if ar.Wipe {
			// the caller empties the destination between two calls
			simkit.ForceRemoveAll(strings.TrimRight(dst, "/"))
			syscall.Umask(0o022)
			os.MkdirAll(strings.TrimRight(dst, "/"), 0o755)
			syscall.Umask(sc.Umask)
			dsts[dst] = &dstState{m: model.NewUWModel(dst, sc.Allow), valid: true}
			out.Probe("destination-wiped-between-calls")
		}
		ds := dsts[dst]
		m := ds.m
		modelValid := ds.valid
		dstClean := strings.TrimRight(dst, "/")
		realDst, _, _ := simkit.ResolvePhysical(dstClean)
		wasValid := modelValid
		raw, err := ar.BuildTar()
		if err != nil {
			out.Skipped = "build: " + err.Error()
			return out
		}
		dec, complete := uw.Decode(raw)
		gz := ar.GzipSplit(raw)
		if ar.SplitMember > 0 {
			out.Probe("multi-member-gzip")
		}
		plan := ar.Reader
		// faults whose offset lies beyond the stream wrap around, so that a
		// generated fault is (almost) always inside the stream
		plan.Faults = append([]simkit.Fault(nil), plan.Faults...)
		for i := range plan.Faults {
			if plan.Faults[i].Off > len(gz) {
				plan.Faults[i].Off %= (len(gz) + 1)
			}
		}
		var sched *simkit.Sched
		var yld simkit.Yielder
		if sc.ConcPeer && shared != nil {
			sched = book.NewSched(log, sc.SchedSeed+uint64(ai), "uw/peer", "random")
			yld = sched
		}
		rd := simkit.NewSimReader(fmt.Sprintf("slug%d", ai), gz, plan, log, yld)
		hasMut := len(plan.Muts) > 0 || len(ar.Raw) > 0 || ar.CutTar > 0

		// model classification of the archive, entry by entry
		classes := make([]string, len(dec))
		firstBad := -1
		allOK := modelValid && complete
		m.Gen = ai + 1
		trial := uw.CloneModel(m)
		for i, e := range dec {
			c := trial.Apply(e)
			classes[i] = c
			states[simkit.HashString(trial.Shape())] = true
			if c != model.ClOK && c != model.ClSkip && firstBad < 0 {
				firstBad = i
			}
			if strings.ContainsAny(e.Name, ".") || strings.HasPrefix(e.Name, "/") || strings.Contains(e.Name, "//") {
				decorated = true
			}
		}
		if firstBad >= 0 {
			allOK = false
		}
		log.Add(0, "archive", fmt.Sprintf("#%d entries=%d classes=%s gz=%d", ai, len(dec), strings.Join(classes, ","), len(gz)))

		excl := []string{dstClean}
		if realDst != dstClean {
			excl = append(excl, realDst)
		}
		if sched != nil {
			excl = append(excl, "/w/peer-dst")
			// (emptied before the snapshot is taken: the harness's own housekeeping must not show in it)
			if ents, err := os.ReadDir("/w/peer-dst"); err == nil {
				for _, e := range ents {
					simkit.ForceRemoveAll("/w/peer-dst/" + e.Name())
				}
			}
		}
		storedBefore := storedBytes(realDst)
		_, dstErr := os.Lstat(strings.TrimRight(dst, "/"))
		dstAbsent := dstErr != nil
		before := simkit.Snapshot(excl...)
		log.Add(0, "op-start", fmt.Sprintf("unpack #%d", ai))
		var uerr error
		var pan interface{}
		observed := func() {
			defer func() {
				if r := recover(); r != nil {
					pan = r
				}
			}()
			p := shared
			if p == nil {
				var perr error
				p, perr = slug.NewPacker(allowOpts(sc.Allow)...)
				if perr != nil {
					uerr = perr
					return
				}
			}
			uerr = p.Unpack(rd, dst)
		}
		if sched == nil {
			observed()
		} else {
			// another caller uses the same Packer for its own destination at the same time
			peerAr := uw.Archive{Format: "auto", Entries: []uw.Entry{
				{Name: "pd/", Type: "dir", Mode: 0o755, Sec: 1000000000},
				{Name: "pd/f", Type: "reg", Mode: 0o644, Sec: 1000000000, Body: "PEER;", Pad: 3000},
				{Name: "pl", Type: "sym", Mode: 0o777, Sec: 1000000000, Link: "pd/f"},
			}}
			praw, _ := peerAr.BuildTar()
			prd := simkit.NewSimReader(fmt.Sprintf("peer%d", ai), uw.Gzip(praw), simkit.ReaderPlan{Chunks: []int{64}}, log, sched)
			var perr error
			var ppan interface{}
			sched.Go("unpack", func(tk *simkit.Task) { observed() })
			sched.Go("peer", func(tk *simkit.Task) {
				defer func() { ppan = recover() }()
				perr = shared.Unpack(prd, "/w/peer-dst")
			})
			if err := sched.Run(); err != nil {
				out.Violate("C19", "unpack-sched", "deadlock", "concurrent Unpack calls on one Packer: "+err.Error())
			}
			out.Decisions += sched.Decisions
			pt := ListTree("/w/peer-dst")
			if perr != nil || ppan != nil || pt["pd/f"].Kind != 'f' || len(pt["pd/f"].Body) != 3005 || pt["pl"].Target != "pd/f" || len(pt) != 3 {
				for _, pr := range []string{"C15", "C04"} {
					out.Violate(pr, "peer-unpack", "concurrent", fmt.Sprintf("archive %d: a caller unpacking a plain archive into /w/peer-dst with the same Packer at the same time got err=%v panic=%v and %d paths (3 expected)", ai, perr, ppan, len(pt)))
				}
			}
			out.Probe("unpack-beside-a-peer-on-one-packer")
		}
		after := simkit.Snapshot(excl...)
		es := "nil"
		if uerr != nil {
			es = simkit.CanonString(uerr.Error())
		}
		log.Add(0, "op-end", fmt.Sprintf("unpack #%d err=%s panic=%v", ai, es, pan))
		for k, v := range rd.Fired {
			if !strings.Contains(k, "/") {
				out.Fault("reader/"+k, v)
			}
		}
		for _, mu := range plan.Muts {
			out.Fault("mutation/"+mu.Kind, 1)
		}
		faultFired := len(rd.Fired) > 0

		// ---- C19: no panic, bounded steps ----
		if pan != nil {
			out.Violate("C19", "unpack-panic", "panic", fmt.Sprintf("Unpack panicked: %v", pan))
		}
		if rd.Reads > 2*len(rd.Data)+64 {
			out.Violate("C19", "unpack-steps", "steps", fmt.Sprintf("Unpack made %d Read calls for %d bytes", rd.Reads, len(rd.Data)))
		}

		// what was stored is bounded by what was read: DEFLATE expands at most 1032 times
		if w := storedBytes(realDst) - storedBefore; w > 1100*int64(len(gz))+1<<20 {
			out.Violate("C19", "unpack-amplification", "stored-bytes", fmt.Sprintf("archive %d: Unpack stored %d bytes for a stream of %d bytes (err=%v)", ai, w, len(gz), uerr))
		}

		// ---- C01: nothing outside dst changed, whatever Unpack returned ----
		for _, d := range simkit.DiffSnap(before, after) {
			if dstAbsent && (parentTimesOnly(d, filepath.Dir(strings.TrimRight(dst, "/"))) || strings.HasPrefix(d, "created "+strings.TrimRight(dst, "/")+" (excluded-root:d")) {
				// the destination did not exist: making it, as a directory, is an entry more in its parent
				continue
			}
			out.Violate("C01", "outside-changed", c01Class(d, dec, classes), fmt.Sprintf("archive %d (err=%s): %s", ai, es, d))
		}

		// ---- C04: every link under dst resolves inside dst ----
		tree := ListTree(realDst)
		var tpaths []string
		for p := range tree {
			tpaths = append(tpaths, p)
		}
		sort.Strings(tpaths)
		nlinks := 0
		type esc struct{ path, target, res, class string }
		var escs []esc
		for _, p := range tpaths {
			n := tree[p]
			if n.Kind != 'l' {
				continue
			}
			nlinks++
			var start string
			if strings.HasPrefix(n.Target, "/") {
				start = n.Target
			} else {
				start = filepath.Dir(realDst+"/"+p) + "/" + n.Target
			}
			res, _, lerr := simkit.ResolvePhysical(start)
			if lerr != nil {
				continue // a loop leads nowhere
			}
			// (a relative allow-list entry means a place relative to the destination as the
			// caller spelled it; where that spelling runs through a link, the text of a target
			// and the place it leads to differ, and either reading of the entry is accepted)
			lexEnd := filepath.Join(filepath.Dir(dstClean+"/"+p), n.Target)
			if strings.HasPrefix(n.Target, "/") {
				lexEnd = filepath.Clean(n.Target)
			}
			allowedAsSpelled := realDst != dstClean && relAllow(sc.Allow) && allowedPhys(lexEnd, sc.Allow, dstClean)
			if !simkit.Under(res, realDst) && !allowedPhys(res, sc.Allow, realDst) && !allowedAsSpelled {
				escs = append(escs, esc{p, n.Target, res, c04Class(n.Target, p, tree)})
			} else if strings.HasPrefix(n.Target, "/") && !allowedPhys(filepath.Clean(n.Target), sc.Allow, realDst) {
				out.Violate("C04", "absolute-link-kept", "abs-inside", fmt.Sprintf("archive %d (err=%s): link %s has absolute target %q and was created", ai, es, p, n.Target))
			}
		}
		// a link that escapes only by passing through another escaping link
		// inherits that link's mechanism (same root cause)
		for iter := 0; iter < 6; iter++ {
			for i := range escs {
				if escs[i].class != "through-link" {
					continue
				}
				for _, via := range linksOnPhysicalPath(filepath.Dir(realDst+"/"+escs[i].path)+"/"+escs[i].target, realDst) {
					for _, o := range escs {
						if o.path == via && o.class != "through-link" {
							escs[i].class = o.class
						}
					}
				}
			}
		}
		for _, e := range escs {
			out.Violate("C04", "link-escapes", e.class, fmt.Sprintf("archive %d (err=%s): link %s -> %q resolves to %s, outside %s", ai, es, e.path, e.target, e.res, realDst))
		}
		if nlinks > 0 {
			out.Probe("links-left-under-dst")
		}
		// rejection form: the first ill-formed entry is an escaping/absolute link
		// (as an unprivileged uid, a later archive may legitimately fail earlier on
		// a permission left by a previous one, so "reached" is only known for
		// uid 0 or the first archive)
		reachable := sc.UID == 0 || ai == 0
		if modelValid && complete && !faultFired && !hasMut && firstBad >= 0 && reachable {
			c := classes[firstBad]
			if c == model.ClLinkAbs || c == model.ClLinkLex || c == model.ClLinkPhys {
				out.Probe("first-bad-is-link:" + c)
				var ise *slug.IllegalSlugError
				if uerr == nil {
					// the physical oracle above reports accepted escapes; an
					// accepted absolute link is reported there too
					out.Probe("bad-link-accepted")
				} else if !errors.As(uerr, &ise) && c != model.ClLinkPhys {
					// (an escape that exists only by way of another link is the open known
					// finding of C04: go-slug does not see it, so a later entry's error says nothing)
					out.Violate("C04", "bad-link-error-kind", c, fmt.Sprintf("archive %d: entry %d (%s -> %q, %s) rejected with a non-illegal-slug error: %v", ai, firstBad, dec[firstBad].Name, dec[firstBad].Link, c, uerr))
				}
			}
			if model.IsPolicy(c) || c == model.ClUnsupported {
				if uerr != nil {
					out.Probe("rejected:" + c)
				}
			}
		}

		// ---- C15 / C12: a successful Unpack materialised the whole archive ----
		strict := !faultFired && !hasMut
		if allOK {
			if uerr == nil && pan == nil {
				for i, e := range dec {
					_ = i
					m.Apply(e)
				}
				prop := "C15"
				if !strict {
					prop = "C12"
				}
				var top *PNode
				if fi, err := os.Stat(realDst); err == nil {
					top = &PNode{Kind: 'd', Mode: int64(fi.Mode().Perm()), MtimeNs: fi.ModTime().UnixNano()}
				}
				compareTree(out, prop, ai, m, tree, dec, top)
				if faultFired {
					out.Probe("unpack-ok-despite-fault")
				}
			} else if strict && pan == nil {
				// well-formed archive, healthy reader, empty-or-model-known dst
				if sc.UID == 0 || ai == 0 {
					out.Violate("C15", "wellformed-rejected", "spurious-error", fmt.Sprintf("archive %d is well-formed (all entries ok) but Unpack failed: %v", ai, uerr))
				}
				modelValid = false
			} else {
				modelValid = false
			}
		} else if modelValid && complete && strict && firstBad >= 0 && classes[firstBad] == model.ClUnsupported && onlyOKBefore(classes, firstBad) {
			out.Probe("unsupported-type-entry")
			if uerr == nil && pan == nil {
				out.Violate("C15", "unsupported-dropped", "unsupported-ok", fmt.Sprintf("archive %d: entry %d (%s, type %c) cannot be represented but Unpack returned success", ai, firstBad, dec[firstBad].Name, dec[firstBad].Type))
			}
			modelValid = false
		} else {
			if uerr == nil && complete && !strict && modelValid && firstBad < 0 {
				// unreachable (allOK covers it); kept for clarity
			}
			// C12 (Unpack): success although the stream failed/was cut and the
			// archive could not have been read completely
			if uerr == nil && pan == nil && !complete && !hasMut {
				out.Violate("C12", "unpack-partial-success", "partial", fmt.Sprintf("archive %d: tar stream incomplete but Unpack returned nil", ai))
			}
			modelValid = false
		}
		// policy rejections are distinguishable
		if uerr != nil && strict && wasValid && reachable && complete && firstBad >= 0 && model.IsPolicy(classes[firstBad]) && onlyOKBefore(classes, firstBad) {
			var ise *slug.IllegalSlugError
			// Two classes of the model are stricter than the policy: a name that climbs out
			// and comes back by the destination's own name (../dst/x) lies inside dst and may
			// be accepted, and an escape that exists only by way of another link is the open
			// known finding of C04. After either, a later entry's plain error says nothing.
			c := classes[firstBad]
			lenient := c == model.ClLinkPhys || (c == model.ClNameEscape && simkit.Under(filepath.Join(filepath.Clean(dst), strings.TrimPrefix(dec[firstBad].Name, "/")), filepath.Clean(dst)) && filepath.Join(filepath.Clean(dst), strings.TrimPrefix(dec[firstBad].Name, "/")) != filepath.Clean(dst))
			if !errors.As(uerr, &ise) && !lenient {
				out.Violate("C12", "policy-error-kind", classes[firstBad], fmt.Sprintf("archive %d: entry %d (%q, %s) rejected with a non-illegal-slug error: %v", ai, firstBad, dec[firstBad].Name, classes[firstBad], uerr))
			}
		}
		// C12: a successful Unpack has materialised the whole archive - also its link
		// entries, whatever was at their paths before (for files and directories the
		// model comparison above says the same, where the model is defined)
		if uerr == nil && pan == nil && complete && !hasMut {
			last := map[string]int{}
			for i, e := range dec {
				if classes[i] == model.ClSkip || classes[i] == model.ClRoot || classes[i] == model.ClNameEscape || classes[i] == model.ClNameDotDot {
					continue
				}
				last[strings.TrimPrefix(filepath.Clean("/"+strings.Join(simkit.Segs(e.Name), "/")), "/")] = i
			}
			for pth, i := range last {
				e := dec[i]
				if e.Type != '2' || strings.Contains(pth, "..") || pth == "" || pth == "." {
					continue
				}
				// skip when a later entry lies below this path (then it cannot be a link any more without that entry failing)
				n, ok := tree[strings.TrimPrefix(filepath.Clean("/"+pth), "/")]
				if !ok || n.Kind != 'l' || n.Target != e.Link {
					out.Violate("C12", "unpack-link-not-materialised", "link", fmt.Sprintf("archive %d: Unpack returned nil but link entry %d (%s -> %q), the last entry for its path, is not what is at that path now", ai, i, e.Name, e.Link))
				}
			}
		}
		if len(dec) >= 2 || faultFired || decorated {
			out.Nontrivial = true
		}
		if uerr == nil && countKind(classes, model.ClOK) >= 2 {
			out.Probe("multi-entry-success")
		}
		ds.valid = modelValid
		if ar.Dst != "" && shared != nil {
			out.Probe("shared-packer-second-destination")
		}
	}
	for s := range states {
		out.States = append(out.States, s)
	}
	sort.Strings(out.States)
	out.TraceHash = log.Hash()
	out.Steps = log.Steps
	out.Events = log.Events
	return out
}

func onlyOKBefore(classes []string, i int) bool {
	for _, c := range classes[:i] {
		if c != model.ClOK && c != model.ClSkip {
			return false
		}
	}
	return true
}

func countKind(cs []string, k string) int {
	n := 0
	for _, c := range cs {
		if c == k {
			n++
		}
	}
	return n
}

func allowOpts(allow []string) []slug.PackerOption {
	var o []slug.PackerOption
	for _, a := range allow {
		o = append(o, slug.AllowSymlinkTarget(a))
	}
	return o
}

func allowedPhys(res string, allow []string, realDst string) bool {
	for _, a := range allow {
		ap := a
		if !strings.HasPrefix(ap, "/") {
			ap = filepath.Join(realDst, ap)
		}
		ap = filepath.Clean(ap)
		if simkit.Under(res, ap) {
			return true
		}
	}
	return false
}

// compareTree checks dst against the model tree (strict C15 comparison; also
// used for C12: success under faults must still mean the whole archive).
func compareTree(out *simkit.Outcome, prop string, ai int, m *model.UWModel, tree map[string]PNode, dec []model.DEntry, top *PNode) {
	keys, nodes := m.Flat()
	if top != nil && m.Root.Explicit {
		if top.Mode != m.Root.Mode {
			out.Violate(prop, "tree-mode", "top-dir-mode", fmt.Sprintf("archive %d: the destination directory has mode %o, the archive's entry for its top directory says %o", ai, top.Mode, m.Root.Mode))
		}
		if top.MtimeNs != m.Root.MtimeNs && m.Root.ExplGen >= m.Root.TouchGen {
			out.Violate(prop, "tree-mtime", "top-dir-mtime", fmt.Sprintf("archive %d: the destination directory has mtime %d, the archive's entry for its top directory says %d", ai, top.MtimeNs, m.Root.MtimeNs))
		}
		out.Probe("top-directory-entry")
	}
	unspecPrefix := func(p string) bool {
		for _, k := range keys {
			if nodes[k].Unspec && (p == k || strings.HasPrefix(p, k+"/")) {
				return true
			}
		}
		return false
	}
	for _, k := range keys {
		n := nodes[k]
		if unspecPrefix(k) {
			continue
		}
		p, ok := tree[k]
		if !ok {
			cl := "missing"
			if n.Kind == 'd' && len(n.Kids) == 0 {
				cl = "missing-empty-dir"
			}
			out.Violate(prop, "tree-missing", cl, fmt.Sprintf("archive %d: %s (%c) prescribed by the archive is missing after a successful Unpack", ai, k, n.Kind))
			continue
		}
		if p.Kind != n.Kind {
			out.Violate(prop, "tree-kind", "kind", fmt.Sprintf("archive %d: %s is %c, archive says %c", ai, k, p.Kind, n.Kind))
			continue
		}
		if !n.Explicit {
			continue
		}
		switch n.Kind {
		case 'f':
			if !bytes.Equal(p.Body, n.Body) {
				out.Violate(prop, "tree-content", "content", fmt.Sprintf("archive %d: %s has %d bytes %q, archive says %d bytes %q", ai, k, len(p.Body), clip(p.Body), len(n.Body), clip(n.Body)))
			}
			if p.Mode != n.Mode {
				out.Violate(prop, "tree-mode", "file-mode", fmt.Sprintf("archive %d: file %s has mode %o, archive says %o", ai, k, p.Mode, n.Mode))
			}
			if p.MtimeNs != n.MtimeNs {
				out.Violate(prop, "tree-mtime", "file-mtime", fmt.Sprintf("archive %d: file %s has mtime %d, archive says %d", ai, k, p.MtimeNs, n.MtimeNs))
			}
		case 'd':
			if p.Mode != n.Mode {
				out.Violate(prop, "tree-mode", "dir-mode", fmt.Sprintf("archive %d: directory %s has mode %o, archive says %o", ai, k, p.Mode, n.Mode))
			}
			if p.MtimeNs != n.MtimeNs && n.ExplGen >= n.TouchGen {
				out.Violate(prop, "tree-mtime", "dir-mtime", fmt.Sprintf("archive %d: directory %s has mtime %d, archive says %d", ai, k, p.MtimeNs, n.MtimeNs))
			}
		case 'l':
			if p.Target != n.Target {
				out.Violate(prop, "tree-target", "target", fmt.Sprintf("archive %d: link %s -> %q, archive says %q", ai, k, p.Target, n.Target))
			}
		}
	}
	var extra []string
	for p := range tree {
		if _, ok := nodes[p]; !ok && !unspecPrefix(p) {
			extra = append(extra, p)
		}
	}
	sort.Strings(extra)
	for _, p := range extra {
		out.Violate(prop, "tree-extra", "extra", fmt.Sprintf("archive %d: %s exists under dst but no entry prescribes it", ai, p))
	}
}

func clip(b []byte) string {
	if len(b) > 24 {
		return string(b[:24]) + "…"
	}
	return string(b)
}

// c01Class derives a mechanism key for an outside change (used only to match
// known findings; never to suppress by itself).
func c01Class(diff string, dec []model.DEntry, classes []string) string {
	for i, c := range classes {
		if c == model.ClNameEscape && strings.Contains(dec[i].Name, "dst-evil") {
			return "sibling-prefix-name"
		}
	}
	for i, c := range classes {
		if c == model.ClLinkPhys || c == model.ClLinkLex || c == model.ClLinkAbs {
			_ = i
			return "via-link:" + c
		}
	}
	return "other"
}

// c04Class derives a mechanism key for an escaping link.
func c04Class(target, linkPath string, tree map[string]PNode) string {
	if strings.HasPrefix(target, "/") {
		return "abs-outside"
	}
	// '..' after a named segment that is a link at this moment
	ss := simkit.Segs(target)
	dir := filepath.Dir(linkPath)
	if dir == "." {
		dir = ""
	}
	seenNamed := false
	cur := dir
	for _, s := range ss {
		switch s {
		case ".":
		case "..":
			if seenNamed {
				return "dotdot-after-link"
			}
			cur = filepath.Dir(cur)
			if cur == "." {
				cur = ""
			}
		default:
			p := s
			if cur != "" {
				p = cur + "/" + s
			}
			if n, ok := tree[p]; ok && n.Kind == 'l' {
				seenNamed = true
			}
			cur = p
		}
	}
	// purely lexical escape
	depth := len(simkit.Segs(dir))
	for _, s := range ss {
		if s == ".." {
			depth--
			if depth < 0 {
				return "lexical"
			}
		} else if s != "." {
			depth++
		}
	}
	return "through-link"
}

// linksOnPhysicalPath follows p the way the kernel would and returns the
// dst-relative paths of all symlinks met on the way that lie under dst.
func linksOnPhysicalPath(p, realDst string) []string {
	var out []string
	hops := 0
	var stack []string
	todo := simkit.Segs(p)
	for len(todo) > 0 && hops < 40 {
		s := todo[0]
		todo = todo[1:]
		switch s {
		case ".":
			continue
		case "..":
			if len(stack) > 0 {
				stack = stack[:len(stack)-1]
			}
			continue
		}
		cur := "/" + strings.Join(append(append([]string{}, stack...), s), "/")
		fi, err := os.Lstat(cur)
		if err != nil {
			break
		}
		if fi.Mode()&os.ModeSymlink != 0 {
			hops++
			if simkit.Under(cur, realDst) && cur != realDst {
				out = append(out, strings.TrimPrefix(cur, realDst+"/"))
			}
			t, _ := os.Readlink(cur)
			if strings.HasPrefix(t, "/") {
				stack = nil
			}
			todo = append(simkit.Segs(t), todo...)
			continue
		}
		stack = append(stack, s)
	}
	return out
}

// firstLinkOnPath returns the dst-relative path of the first symlink component
// met when following target lexically from the directory of linkPath.
func firstLinkOnPath(target, linkPath string, tree map[string]PNode) string {
	if strings.HasPrefix(target, "/") {
		return ""
	}
	cur := filepath.Dir(linkPath)
	if cur == "." {
		cur = ""
	}
	for _, s := range simkit.Segs(target) {
		switch s {
		case ".":
		case "..":
			cur = filepath.Dir(cur)
			if cur == "." || cur == "/" {
				cur = ""
			}
		default:
			p := s
			if cur != "" {
				p = cur + "/" + s
			}
			if n, ok := tree[p]; ok && n.Kind == 'l' {
				return p
			}
			cur = p
		}
	}
	return ""
}

// ScenarioJSON attaches the scenario to the outcome.
func ScenarioJSON(sc *uw.Scenario) json.RawMessage {
	b, _ := json.Marshal(sc)
	return b
}

var snapTimes = regexp.MustCompile(` [mc]time=[0-9-]+`)

// parentTimesOnly: does the snapshot difference d say no more than that the
// directory parent got a new modification and change time?
func parentTimesOnly(d, parent string) bool {
	pre := "changed " + parent + ": d "
	if !strings.HasPrefix(d, pre) {
		return false
	}
	halves := strings.SplitN(d[len(pre)-2:], " -> ", 2)
	return len(halves) == 2 && snapTimes.ReplaceAllString(halves[0], "") == snapTimes.ReplaceAllString(halves[1], "")
}

// storedBytes is the amount of file content stored below root: for every
// regular file its size, or what is allocated for it when that is less (holes).
func storedBytes(root string) int64 {
	var n int64
	filepath.Walk(root, func(p string, info os.FileInfo, err error) error {
		if err != nil || !info.Mode().IsRegular() {
			return nil
		}
		sz := info.Size()
		if st, ok := info.Sys().(*syscall.Stat_t); ok && st.Blocks*512 < sz {
			sz = st.Blocks * 512
		}
		n += sz
		return nil
	})
	return n
}

// relAllow: does the allow list hold a relative entry?
func relAllow(allow []string) bool {
	for _, a := range allow {
		if !strings.HasPrefix(a, "/") {
			return true
		}
	}
	return false
}
