#!/usr/bin/env python3
"""import_wave.py <wave-dir> <wave-no> <letter-a> <letter-b> [ID ...]

Takes the results of one wave of independently written changes
(<wave-dir>/<ID>.out/{a,b}/{patch.diff,demo_test.go,README.md}), re-confirms
each with tools/verify_seed.sh (patch applies to /repo HEAD, suite green with
it, demo fails with it and passes without it) and stores the confirmed ones as
/verif/seeded/<ID>-<letter>/. needs_to_manifest is taken from
<wave-dir>/needs.json when present ({"C01-g": "..."}), else left as TODO.
"""
import json, os, shutil, subprocess, sys, glob

wave_dir, wave_no, la, lb = sys.argv[1], int(sys.argv[2]), sys.argv[3], sys.argv[4]
ids = sys.argv[5:] or sorted({os.path.basename(p)[:-4] for p in glob.glob(wave_dir + "/C*.out")})
needs = {}
if os.path.exists(wave_dir + "/needs.json"):
    needs = json.load(open(wave_dir + "/needs.json"))
root = os.path.dirname(os.path.dirname(os.path.abspath(__file__)))
for pid in ids:
    for sub, letter in (("a", la), ("b", lb)):
        src = f"{wave_dir}/{pid}.out/{sub}"
        name = f"{pid}-{letter}"
        if not (os.path.exists(src + "/patch.diff") and glob.glob(src + "/demo*_test.go")):
            print("ABSENT", name)
            continue
        r = subprocess.run([root + "/tools/verify_seed.sh", src], capture_output=True, text=True)
        line = [l for l in r.stdout.splitlines() if l and not l.startswith("WARNING")]
        verdict = line[-1] if line else "no output"
        if not verdict.startswith("CONFIRMED"):
            print("REJECTED", name, "::", " | ".join(line[-3:]))
            continue
        dst = f"{root}/seeded/{name}"
        os.makedirs(dst, exist_ok=True)
        shutil.copy(src + "/patch.diff", dst + "/patch.diff")
        for d in glob.glob(src + "/demo*_test.go"):
            shutil.copy(d, dst + "/" + os.path.basename(d))
        if os.path.exists(src + "/README.md"):
            shutil.copy(src + "/README.md", dst + "/AGENT_README.md")
        meta = {
            "id": name, "wave": wave_no, "breaks_property": pid, "detect_with": [pid],
            "needs_to_manifest": needs.get(name, "TODO"),
            "origin": "written by an independent sub-agent given only the property text (with the list of earlier ideas not to repeat) and a scratch worktree of /repo HEAD",
            "confirmed": ["patch applies to /repo HEAD; go build ok", "go test -vet=off -count=1 ./... green with the patch",
                          "demo fails with the patch", "demo passes without the patch (tools/verify_seed.sh)"],
            "confirm_cmd": f"tools/verify_seed.sh /verif/seeded/{name}", "caught_by": None,
        }
        json.dump(meta, open(dst + "/meta.json", "w"), indent=1)
        print("STORED", name)
