#!/usr/bin/env python3
"""Regenerates /verif/MANIFEST.json from the table below (single source of truth)."""
import json, subprocess, os

NA = {
 "C06": "pure string->value->string functions (parse/print of addresses); no schedule, fault, clock, I/O or shared state for a simulator to control - answering it would be input generation dressed as simulation (DESIGN.md section 6)",
 "C07": "pure parsing/validation of address strings; nothing for deterministic simulation to schedule or fault (DESIGN.md section 6)",
 "C11": "pure path algebra on address values; no I/O, concurrency, time or history (DESIGN.md section 6)",
}

CHECKS = {}
def chk(pid, level, text, note, technique, design):
    CHECKS[pid] = dict(level=level, text=text, note=note, technique=technique, design=design)

chk("C01", "exploration",
    "Seeded deterministic simulation of Unpack on the real code inside a chroot arena: adversarial entry sequences (histories), reader chunking/faults/truncation at arbitrary offsets, repeated Unpack into one dst, uid 0 and 65534; a total before/after snapshot of everything outside dst is the oracle. Sampled, not exhaustive: bounded evidence over <=12 entries x <=3 archives.",
    "Trusted: kernel file system, archive/tar, gzip, the snapshot walker. Assumes no other process touches the arena. linux/amd64 only.",
    "deterministic simulation: seeded entry-sequence and reader-fault search with total-snapshot invariant, minimised replayable scenarios", "5 C01")
chk("C04", "exploration",
    "Same simulated Unpack runs; after every return each symlink under dst is resolved physically (component-wise Lstat/Readlink) and must stay inside dst; absolute/escaping first-bad link entries must be refused with an illegal-slug error. History (which links exist when a link is created) is the searched dimension.",
    "Trusted: the physical resolver and reference interpreter in /verif/sim/model. One open known finding (dotdot-after-link) is suppressed by mechanism only.",
    "deterministic simulation: seeded entry histories + reader faults, physical link-resolution invariant after every operation", "5 C04")
chk("C15", "exploration",
    "Well-formed entry sequences (index-decoded short family plus seeded longer ones, three tar formats, both uids, four umasks, multi-archive histories) are unpacked by the real code and dst is compared node by node with a sequential reference interpreter.",
    "Well-formed = accepted by the reference interpreter; what the archive says = what Go's tar reader decodes; type-changing repeats excluded as unspecified.",
    "deterministic simulation: operation-sequence vs sequential reference model, privilege/umask configurations", "5 C15")

def main():
    here = os.path.dirname(os.path.dirname(os.path.abspath(__file__)))
    hooks = []
    try:
        out = subprocess.run(["git","-C","/repo","log","--format=%H %s"],capture_output=True,text=True).stdout
        for l in out.splitlines():
            h, s = l.split(" ",1)
            if s.startswith("verif-hook:"):
                hooks.append(h)
    except Exception:
        pass
    props = [json.loads(l)["id"] for l in open(os.path.join(here,"properties.jsonl"))]
    m = {
     "version": 1,
     "setup_cmd": "./check setup",
     "hooks": {
       "guard": "verif",
       "enable": "go build -tags verif (simworker is rebuilt from /repo's working tree by every check)",
       "baseline_off_cmd": "cd /repo && GOFLAGS=-mod=mod GOPROXY=off GOSUMDB=off GOTOOLCHAIN=local go test -vet=off -count=1 ./...",
       "source_commits": hooks,
       "add_only": False
     },
     "engines": [
       {"name": "simkit", "path": "sim/", "serves_properties": sorted(CHECKS), "kind_free_text": "hand-written deterministic simulator in Go: seeded scenario generator, cooperative task scheduler with schedule tape, simulated reader/writer/pipe devices with fault plans, simulated fetcher/registry/finder peers, chroot arena with total snapshots, reference models, structural shrinker, replay"}
     ],
     "checks": [],
     "notes": "All checks: ./check <id> quick|thorough; replay: ./check --replay <file>; determinism self-test: ./check selftest determinism. Exit 0 held / 1 VIOLATION / 2 infrastructure. VERIF_SEED selects the seed block; VERIF_BUDGET_S the thorough budget per property (default 900).",
     "not_applicable": []
    }
    for pid in props:
        if pid in CHECKS:
            c = CHECKS[pid]
            m["checks"].append({
              "property_id": pid,
              "quick_cmd": f"./check {pid} quick",
              "thorough_cmd": f"./check {pid} thorough",
              "evidence_file": f"/verif/evidence/{pid}.json",
              "replay_cmd_template": "./check --replay {path}",
              "engine": "simkit",
              "level_claimed": {"category": c["level"], "text": c["text"], "design_ref": "DESIGN.md section " + c["design"]},
              "level_note": c["note"],
              "technique": c["technique"],
            })
        elif pid in NA:
            m["not_applicable"].append({"property_id": pid, "reason": NA[pid]})
        else:
            m["not_applicable"].append({"property_id": pid, "reason": "not claimed yet: the check for this property is still being built (see DESIGN.md section 12); no verdict is offered"})
    json.dump(m, open(os.path.join(here,"MANIFEST.json"),"w"), indent=1)
    print("checks:", [c["property_id"] for c in m["checks"]])

main()
