#!/usr/bin/env python3
"""Regenerates /verif/MANIFEST.json from the table below (single source of truth)."""
import json, subprocess, os

NA = {
 "C06": "pure string->value->string functions (parse/print of addresses); no schedule, fault, clock, I/O or shared state for a simulator to control - answering it would be input generation dressed as simulation (DESIGN.md section 6)",
 "C07": "pure parsing/validation of address strings; nothing for deterministic simulation to schedule or fault (DESIGN.md section 6)",
 "C11": "pure path algebra on address values; no I/O, concurrency, time or history (DESIGN.md section 6)",
}

CHECKS = {}
def chk(pid, level, text, note, technique, design):
    CHECKS[pid] = dict(level=level, text=text, note=note, technique=technique, design=design)

chk("C01", "exploration",
    "Seeded deterministic simulation of Unpack on the real code inside a chroot arena: adversarial entry sequences (histories), reader chunking/faults/truncation at arbitrary offsets, repeated Unpack into one dst, destinations that are a link, behind a link or do not exist yet, uid 0 and 65534; a total before/after snapshot of everything outside dst is the oracle. Sampled, not exhaustive: bounded evidence over <=12 entries x <=3 archives.",
    "Trusted: kernel file system, archive/tar, gzip, the snapshot walker. Assumes no other process touches the arena. linux/amd64 only.",
    "deterministic simulation: seeded entry-sequence and reader-fault search with total-snapshot invariant, minimised replayable scenarios", "5 C01")
chk("C04", "exploration",
    "Same simulated Unpack runs; after every return each symlink under dst is resolved physically (component-wise Lstat/Readlink) and must stay inside dst; absolute/escaping first-bad link entries must be refused with an illegal-slug error. History (which links exist when a link is created) is the searched dimension.",
    "Trusted: the physical resolver and reference interpreter in /verif/sim/model. One open known finding (dotdot-after-link) is suppressed by mechanism only.",
    "deterministic simulation: seeded entry histories + reader faults, physical link-resolution invariant after every operation", "5 C04")
chk("C15", "exploration",
    "Well-formed entry sequences (index-decoded short family plus seeded longer ones, three tar formats, both uids, four umasks, multi-archive histories) are unpacked by the real code and dst is compared node by node with a sequential reference interpreter. An entry for the archive's top directory prescribes the destination's own mode and mtime. Directory modes include ones without the owner search bit (unprivileged runs), times include the epoch, pre-1970 and post-2038 values.",
    "Well-formed = accepted by the reference interpreter; what the archive says = what Go's tar reader decodes; type-changing repeats excluded as unspecified.",
    "deterministic simulation: operation-sequence vs sequential reference model, privilege/umask configurations", "5 C15")

chk("C02", "exploration",
    "Generated trees are packed and unpacked by the real code, sequentially through a chunking SimReader or pipelined as two scheduled tasks over a bounded SimPipe (capacity 1 B-64 KiB, interleaving from the schedule tape); the resulting tree is compared node by node with the generated node list. Simulation adds adversarial chunking/interleaving and uid/umask configurations; tree shapes are seeded generation against the model.",
    "Directories touched by an ignore rule are not compared (the statement fixes files). Unprivileged runs use only modes readable by the uid. linux/amd64: link times are not restored and not compared.",
    "deterministic simulation: Pack||Unpack tasks over a simulated pipe under seeded schedules, round-trip vs generated model tree", "5 C02")
chk("C03", "exploration",
    "Rule files from the documented grammar and trees built from the same segment names are packed with ignore on/off, after in-process histories (rule files beginning with a negation, other options) and repeatedly; the shipped file/link set is compared both ways with an independent segment-wise matcher, also for files copied from dereferenced directories (judged at their archive path). The bundle builder's consumer of the same rules is checked in the bundle world against the same matcher. One unusable line (a character class that is never closed) may stand among ordinary rules; the reference matcher skips just that line.",
    "Strict oracle on files and links only. The grammar avoids the '**' corners the statement leaves undefined, closed bracket expressions and backslashes; file names may contain backslashes, tabs, newlines and bytes that are not UTF-8, but such names are not put into rules.",
    "deterministic simulation: history-dependent workload (shared package-level rule state) + differential check against independent reference matcher", "5 C03")
chk("C05", "exploration",
    "Trees with in-tree, absolute, out-of-tree, sibling-prefix, chained, dangling and back-pointing links are packed under generated options; provenance tokens prove no outside content leaks, link entries are resolved at their archive position, refusals must be illegal-slug errors without Meta, and slugs from all-relative trees are fed to the real Unpack in the same run.",
    "Thin simulation dimension (device chunking, Pack output fed to Unpack in one run); mostly seeded generation against oracles, stated as such.",
    "deterministic simulation: seeded link-topology workload with provenance-token and archive-position oracles; Pack output replayed into Unpack", "5 C05")
chk("C16", "exploration",
    "One tree and option set is packed 2-5 times under varied spellings, working directories and in-process histories, and in a third of the runs as concurrent Pack tasks plus a Chdir task whose interleaving at writer yields is decided by the schedule tape; all decoded entry lists must be identical and equal to the model list. One open known finding (root symlink with relative target) is suppressed by mechanism only. Every scenario with a history is also executed without it in a fresh worker process, whose per-run output digests the runs after the history must equal (state left behind process-wide shows even when all later runs see it).",
    "Interleaving granularity is the writer call (gzip buffers; small trees yield rarely); data races inside Pack are outside what the cooperative scheduler can see.",
    "deterministic simulation: seeded scheduler over concurrent Pack and Chdir tasks, history and configuration search, output-equality invariant", "5 C16")
chk("C20", "exploration",
    "Evaluated on every successful Pack of the Pack-world runs (sequential and concurrent): returned file list vs decoded entry names in order, returned size vs stored bytes vs header sizes.",
    "Thin simulation dimension; claimed because the invariant is evaluated on all simulated runs at no extra cost.",
    "deterministic simulation runs with decoded-slug accounting invariant", "5 C20")
chk("C12", "fault_enumeration",
    "Single-fault spaces are swept per seeded base scenario: every compressed-byte offset of the reader x 4 fault kinds for Unpack, every writer call and strided byte offsets x kinds for Pack, every peer call x kinds for a build (plus crash points at every callback boundary and every torn manifest prefix); oracles as stated in DESIGN.md C12, the poisoned-builder history checked with porcupine. Fault-free sequences of 1-3 archives into one, possibly populated, destination check that a nil return has materialised every link entry.",
    "Bases and fault pairs are sampled; syscall-level faults are not injected; crash = process death with completed syscalls durable.",
    "fault enumeration over simulated devices and peers (deterministic simulation), porcupine history check for the poisoned builder", "5 C12")
chk("C19", "exploration",
    "Hostile scenarios of all worlds run in watched worker processes: mutated tar headers with repaired checksums, truncations, link cycles, directory loops, fifo targets, degenerate rule files, hostile manifests and peer-supplied address strings; oracles: no panic, no process death, step bounds, stored bytes bounded by the bytes read (pax sparse entries), real-time budget confirmed by a solo re-run.",
    "The string-parser part is plain seeded generation arriving through simulated peers; bounded real-time budget is used only where steps cannot be counted.",
    "deterministic simulation with watched worker processes: hostile input/fault workload, panic/crash/hang oracles", "5 C19")

chk("C08", "exploration",
    "Generated worlds (remote packages with module locations, registry packages and versions, local/remote/registry dependency edges incl. cycles, diamonds, self-references) are built by the real Builder from Add calls issued by 1-3 scheduled client tasks against simulated fetcher/registry/finder peers; after an error-free build every pair of an independently computed reference closure must be found inside the root, exist iff fetched, hold exactly the fetched (rule-filtered) content, and registry lookups/metadata must match what the peers supplied.",
    "World addresses are canonical by construction (asserted at run time). Finder stubs read their declarations from the fetched files. Directory existence is only demanded where no ignore rule touches the path.",
    "deterministic simulation: multi-party build against simulated peers under seeded schedules, closure/lookup oracle vs reference model", "5 C08")
chk("C09", "exploration",
    "After each successful simulated build the generated post-operations 'reopen' (restart with only the directory surviving; also a relative spelling from another cwd) and 'ship' (WriteArchive and ExtractArchive as two scheduled tasks over a bounded SimPipe) run; the full accessor fingerprint and the directory trees must equal those of the bundle returned by Close. The bundle is also re-opened, and the archive extracted, by way of a symlink to the directory (answers relative to the root as spelled, reverse lookups included), and after a broken pipe the hand-over is tried again over a healthy one.",
    "Same platform on both sides; mtimes compared after rounding to the second as the archive format does.",
    "deterministic simulation: restart and streamed hand-over (two tasks over a simulated pipe) as generated operations, fingerprint/tree equality", "5 C09")
chk("C10", "exploration",
    "The simulated fetcher delivers hostile trees (escaping/absolute/dangling/chained links, links naming the manifest, a sibling, the temporary directory, links through rule-excluded directories or through a link to the package's own root, fifos); on success every package directory must contain only files, directories and links resolving physically inside it, with no .tmp-* left; on every outcome - also under the C12 peer-fault sweep and with concurrent client tasks - a total snapshot must show nothing outside the target changed.",
    "The model predicts 'must be refused' from the rule-filtered tree; where a link leads through a directory the rules may remove, no prediction is made.",
    "deterministic simulation: hostile peer + fault x schedule search, physical link-resolution and total-snapshot invariants", "5 C10")
chk("C13", "exploration",
    "One world's Add set is executed 2-5 times inside one scenario: permuted Add order, permuted dependency/version-list report order, 1-3 client tasks interleaved at every Lock/Unlock (mutex hook) and peer call by the schedule tape, and identical re-runs; manifest bytes, checksum, listing and lookup table must be identical and packages share a directory iff their path->content maps are equal.",
    "The cooperative scheduler cuts only at yield points; races inside a critical section are out of reach. Map-order sensitivity is probed by identical re-runs (probabilistic).",
    "deterministic simulation: seeded scheduler over concurrent Add tasks via mutex hook, permutation of histories, output-equality invariant", "5 C13")
chk("C14", "exploration",
    "Over the peers' call log and the tracer's history of each fault-free simulated build: one fetch per distinct package of the reference closure, one version-list and one source-address request per registry package/selected version, one analysis per (source, finder) pair, strict start/success|failure bracketing, 'already' only after success, and a step bound computed from the model; the index-decoded 'small' family walks <=3 packages x <=2 locations x edge subsets in order. Builds that must refuse a fetched tree are included: the trace clauses hold there too.",
    "Analyses are keyed by (package directory, sub-path, finder); coalesced twins share a key.",
    "deterministic simulation: exactly-once and bounded-steps checks over recorded peer-call and trace histories, scheduler deadlock detection", "5 C14")
chk("C17", "exploration",
    "Builds with several registry requests against the same package (first vs cached path), permuted version lists and generated constraints; the versions held by the bundle and asked of the registry client must equal the brute-force maximum of offered-and-allowed, final sources use exactly their version, empty intersections produce an error, deprecations are the registry's.",
    "go-versions' set membership and ordering are trusted.",
    "deterministic simulation: multi-request histories against a simulated registry, brute-force selection oracle", "5 C17")
chk("C18", "exploration",
    "Stored-state faults on the manifest of finished bundles (truncation, byte flips, field-wise hostile rewrites) and synthetic hostile manifests are followed by re-opening: an opened bundle must answer every lookup inside its root and must have refused directory names with a separator, '.' or '..'; on every built bundle all paths under package directories translate to an address and back, outside paths are rejected.",
    "Which alias is returned for coalesced packages is not checked. The corruption grammar is seeded generation; the simulated part is 'durable state altered between Close and re-open'.",
    "deterministic simulation: stored-state corruption followed by restart, containment and round-trip lookup invariants", "5 C18")

def main():
    here = os.path.dirname(os.path.dirname(os.path.abspath(__file__)))
    hooks = []
    try:
        out = subprocess.run(["git","-C","/repo","log","--format=%H %s"],capture_output=True,text=True).stdout
        for l in out.splitlines():
            h, s = l.split(" ",1)
            if s.startswith("verif-hook:"):
                hooks.append(h)
    except Exception:
        pass
    props = [json.loads(l)["id"] for l in open(os.path.join(here,"properties.jsonl"))]
    m = {
     "version": 1,
     "setup_cmd": "./check setup",
     "hooks": {
       "guard": "verif",
       "enable": "go build -tags verif (simworker is rebuilt from /repo's working tree by every check)",
       "baseline_off_cmd": "cd /repo && GOFLAGS=-mod=mod GOPROXY=off GOSUMDB=off GOTOOLCHAIN=local go test -vet=off -count=1 ./...",
       "source_commits": hooks,
       "add_only": False
     },
     "engines": [
       {"name": "simkit", "path": "sim/", "serves_properties": sorted(CHECKS), "kind_free_text": "hand-written deterministic simulator in Go: seeded scenario generator, cooperative task scheduler with schedule tape, simulated reader/writer/pipe devices with fault plans, simulated fetcher/registry/finder peers, chroot arena with total snapshots, reference models, structural shrinker, replay"}
     ],
     "checks": [],
     "notes": "All checks: ./check <id> quick|thorough; replay: ./check --replay <file>; determinism self-test: ./check selftest determinism. Exit 0 held / 1 VIOLATION / 2 infrastructure. VERIF_SEED selects the seed block; VERIF_BUDGET_S the thorough budget per property (default 900).",
     "not_applicable": []
    }
    for pid in props:
        if pid in CHECKS:
            c = CHECKS[pid]
            m["checks"].append({
              "property_id": pid,
              "quick_cmd": f"./check {pid} quick",
              "thorough_cmd": f"./check {pid} thorough",
              "evidence_file": f"/verif/evidence/{pid}.json",
              "replay_cmd_template": "./check --replay {path}",
              "engine": "simkit",
              "level_claimed": {"category": c["level"], "text": c["text"], "design_ref": "DESIGN.md section " + c["design"]},
              "level_note": c["note"],
              "technique": c["technique"],
            })
        elif pid in NA:
            m["not_applicable"].append({"property_id": pid, "reason": NA[pid]})
        else:
            m["not_applicable"].append({"property_id": pid, "reason": "not claimed yet: the check for this property is still being built (see DESIGN.md section 12); no verdict is offered"})
    json.dump(m, open(os.path.join(here,"MANIFEST.json"),"w"), indent=1)
    print("checks:", [c["property_id"] for c in m["checks"]])

main()
