#!/bin/bash
# Sensitivity self-test: every patch under /verif/mutants (own mutants) and
# /verif/seeded/*/patch.diff (changes written by independent sub-agents) is
# applied to a scratch worktree of /repo; the quick check of the property named
# in the patch's first line ("# property: Cnn [Cmm ...]") must report a
# VIOLATION. Scratch trees live under ${TMPDIR:-/tmp} and are removed at once.
#   tools/mutants.sh [pattern]
cd "$(dirname "$0")/.." || exit 2
pat="${1:-}"
fail=0; n=0
for f in mutants/*.patch seeded/*/patch.diff; do
  [ -f "$f" ] || continue
  case "$f" in *"$pat"*) ;; *) continue ;; esac
  props=$(head -1 "$f" | sed -n 's/^# property: //p')
  if [ -z "$props" ] && [ -f "$(dirname "$f")/meta.json" ]; then
    props=$(python3 -c "import json,sys; print(' '.join(json.load(open(sys.argv[1]))['detect_with']))" "$(dirname "$f")/meta.json")
  fi
  [ -n "$props" ] || { echo "SKIP $f (no property line)"; continue; }
  wt=$(mktemp -d "${TMPDIR:-/tmp}/mut.XXXXXX"); out=$(mktemp -d "${TMPDIR:-/tmp}/mutout.XXXXXX")
  git -C /repo worktree add -q --detach "$wt" HEAD || { echo "worktree failed"; exit 2; }
  if ! (cd "$wt" && grep -v "^# " "/verif/$f" | git apply --whitespace=nowarn - 2>/dev/null || grep -v "^# " "/verif/$f" | git apply --3way --whitespace=nowarn - 2>/dev/null); then
    echo "NOAPPLY $f"; fail=1
  else
    caught=""
    for p in $props; do
      VERIF_REPO="$wt" VERIF_OUT="$out" VERIF_QUICK_SCALE_PCT="${MUT_SCALE:-100}" ./check "$p" quick > "$out/log.$p" 2>&1; rc=$?
      if [ $rc -eq 1 ] && grep -q "^VIOLATION property=$p" "$out/log.$p"; then caught="$caught $p"; fi
      if [ $rc -eq 2 ]; then echo "  ($p: infrastructure exit 2: $(tail -2 "$out/log.$p" | tr '\n' ' '))"; fi
    done
    n=$((n+1))
    if [ -n "$caught" ]; then
      echo "CAUGHT $f by$caught :: $(grep -h -A1 '^VIOLATION' "$out"/log.* | grep oracle= | head -1 | cut -c1-160)"
    else
      echo "MISSED $f (ran: $props)"; fail=1
    fi
  fi
  git -C /repo worktree remove --force "$wt"; rm -rf "$wt" "$out"
done
echo "mutants run: $n, failures: $fail"
exit $fail
