#!/usr/bin/env python3
"""record_wave.py <mutants.sh log> <wave-no> [notes.json]

Writes caught_by into the meta.json of every seeded change of the given wave
from the lines of a tools/mutants.sh log (CAUGHT ... by Cxx :: oracle=.. class=..
world=.. / MISSED ...), adding the per-change note from notes.json
({"C01-m": "..."}), and prints the markdown table rows for DESIGN.md 16.
Changes marked obsolete are left alone.
"""
import json, re, sys, glob, os

log, wave = sys.argv[1], int(sys.argv[2])
notes = json.load(open(sys.argv[3])) if len(sys.argv) > 3 else {}
root = os.path.dirname(os.path.dirname(os.path.abspath(__file__)))
res = {}
for line in open(log, errors="replace"):
    m = re.match(r"(CAUGHT|MISSED|NOAPPLY) seeded/(C\d\d-[a-z])/patch\.diff(.*)", line)
    if not m:
        continue
    res[m.group(2)] = (m.group(1), m.group(3))
for d in sorted(glob.glob(root + "/seeded/C*")):
    p = d + "/meta.json"
    meta = json.load(open(p))
    if meta.get("wave") != wave or meta.get("obsolete"):
        continue
    name = meta["id"]
    verdict, rest = res.get(name, ("NOT-RUN", ""))
    note = notes.get(name, "")
    if verdict == "CAUGHT":
        by = re.search(r" by((?: C\d\d)+) ::", rest)
        o = re.search(r"oracle=(\S+) class=(\S+) world=(\S+)", rest)
        cb = {"check": by.group(1).split() if by else meta["detect_with"], "oracle": o.group(1) if o else "?",
              "class": o.group(2) if o else "?", "world": o.group(3) if o else "?"}
        if note:
            cb["note"] = note
        meta["caught_by"] = cb
        cell = "%s %s/%s (%s)" % (" ".join(cb["check"]), cb["oracle"], cb["class"], cb["world"]) + (" - " + note if note else "")
    elif verdict == "MISSED":
        meta["caught_by"] = "MISSED" + (" - " + note if note else "")
        cell = meta["caught_by"]
    else:
        cell = verdict + (" - " + note if note else "")
    json.dump(meta, open(p, "w"), indent=1)
    need = meta.get("needs_to_manifest", "").replace("|", "/").replace("\n", " ")
    print("| %s | %s | %s |" % (name, need, cell.replace("|", "/")))
