#!/bin/bash
# Runs every check's thorough tier on /repo with a given budget per property (default 300 s)
# and seed; prints one line per property. Evidence and replays go to $VERIF_OUT (default: a
# scratch directory), so that committed quick-tier evidence is not overwritten.
cd "$(dirname "$0")/.." || exit 2
export VERIF_BUDGET_S="${VERIF_BUDGET_S:-300}"
export VERIF_SEED="${VERIF_SEED:-7}"
export VERIF_OUT="${VERIF_OUT:-$(mktemp -d /tmp/thorough.XXXXXX)}"
mkdir -p "$VERIF_OUT"
rc=0
for c in C01 C02 C03 C04 C05 C08 C09 C10 C12 C13 C14 C15 C16 C17 C18 C19 C20; do
  ./check $c thorough > "$VERIF_OUT/log.$c" 2>&1; r=$?
  echo "$c exit=$r $(grep -E '^(OK|VIOLATION)' "$VERIF_OUT/log.$c" | head -3 | tr '\n' ' ' | cut -c1-300)"
  [ $r -ne 0 ] && rc=1
done
echo "out: $VERIF_OUT"
exit $rc
