#!/bin/bash
# verify_seed.sh <src-dir-with patch.diff,demo_test.go> : confirms in a scratch worktree that
# (1) the patch applies and the existing suite stays green, (2) the demo fails with the patch,
# (3) the demo passes without it. Prints one line and exits 0 when all three hold.
export GOFLAGS=-mod=mod GOPROXY=off GOSUMDB=off GOTOOLCHAIN=local
src="$1"
wt=$(mktemp -d /tmp/vs.XXXXXX)
git -C /repo worktree add -q --detach "$wt" HEAD || exit 2
cleanup() { git -C /repo worktree remove --force "$wt" 2>/dev/null; rm -rf "$wt"; }
trap cleanup EXIT
demo=$(ls "$src"/demo*_test.go  2>/dev/null | head -1)
[ -n "$demo" ] || { echo "NO-DEMO $src"; exit 1; }
pkg=$(grep -m1 '^package ' "$demo" | awk '{print $2}')
case "$pkg" in
  slug|slug_test) dir=. ;;
  sourcebundle|sourcebundle_test) dir=sourcebundle ;;
  sourceaddrs|sourceaddrs_test) dir=sourceaddrs ;;
  unpackinfo|unpackinfo_test) dir=internal/unpackinfo ;;
  ignorefiles|ignorefiles_test) dir=internal/ignorefiles ;;
  *) echo "UNKNOWN-PKG $pkg"; exit 1 ;;
esac
cd "$wt"
grep -v '^# ' "$src/patch.diff" | git apply --whitespace=nowarn - || { echo "NOAPPLY $src"; exit 1; }
go build ./... 2>/dev/null || { echo "NOBUILD $src"; exit 1; }
if ! go test -vet=off -count=1 ./... > /tmp/vs.suite.log 2>&1; then echo "SUITE-RED $src"; tail -5 /tmp/vs.suite.log; exit 1; fi
cp "$demo" "$dir/zz_seeded_demo_test.go"
if timeout 300 go test -vet=off -count=1 -run 'Demo|demo|C[0-9][0-9]' "./$dir/" > /tmp/vs.with.log 2>&1; then echo "DEMO-PASSES-WITH-PATCH $src"; exit 1; fi
rm "$dir/zz_seeded_demo_test.go"; git checkout -q -- . ; git clean -fdq
cp "$demo" "$dir/zz_seeded_demo_test.go"
if ! timeout 300 go test -vet=off -count=1 -run 'Demo|demo|C[0-9][0-9]' "./$dir/" > /tmp/vs.without.log 2>&1; then echo "DEMO-FAILS-WITHOUT-PATCH $src"; tail -5 /tmp/vs.without.log; exit 1; fi
echo "CONFIRMED $src (demo package $pkg in $dir)"
